"""
C12 / "attribute-bound annotations on the copy follow the copy's attributes",
routes: copy constructor followed by ANY second copy (copy constructor,
clone(1), copy.deepcopy).

Tree(src) deep-copies src into a temporary Tree and then adopts the temporary's
attribute dictionary (self.__dict__ = t.__dict__).  Only the tree's *own*
annotation set is re-bound to the new object; every other reference to "the
tree" from inside the copy - here: a node annotation bound to an attribute of
the tree (annotations.add_bound_attribute(..., owner_instance=tree)) - keeps
pointing at the hidden temporary.  As long as the temporary shares its
dictionary with the copy nobody notices, but a copy *of that copy* copies the
hidden object separately, and from then on the annotation is frozen: assigning
the attribute on the second-generation copy is not reflected by its annotation.
The same happens with TreeList(src) (tree annotation bound to the list) and the
matrix copy constructors (same _clone_from code).

Needs: (1) an annotation on a node/edge (or on a tree of a list) bound to an
attribute of the containing Tree (TreeList) through owner_instance=...;
(2) c1 = Tree(src); (3) c2 = any copy of c1; (4) assignment of the attribute on c2.
A direct copy.deepcopy(src) / src.clone(1) behaves correctly.
"""
import copy
import dendropy

src = dendropy.Tree.get(data="((A,B),C);", schema="newick")
src.weight = 1.0
src.seed_node.annotations.add_bound_attribute("weight", owner_instance=src)

def bound_value(tree):
    return tree.seed_node.annotations.find(name="weight").value

# reference behaviour: direct deep copy follows the copy
d = copy.deepcopy(src)
d.weight = 5.0
assert bound_value(d) == 5.0 and bound_value(src) == 1.0

c1 = dendropy.Tree(src)
c1.weight = 3.0
assert bound_value(c1) == 3.0 and bound_value(src) == 1.0   # still fine

problems = []
for name, route in [("Tree(c1)", dendropy.Tree),
                    ("c1.clone(1)", lambda t: t.clone(1)),
                    ("copy.deepcopy(c1)", copy.deepcopy)]:
    c2 = route(c1)
    c2.weight = 7.0
    if bound_value(c2) != 7.0:
        problems.append("{}: c2.weight == 7.0 but the annotation bound to it says {}".format(
            name, bound_value(c2)))

# same thing one level up: a tree annotation bound to an attribute of its TreeList
tl = dendropy.TreeList.get(data="(A,B);(A,B);", schema="newick")
tl.label = "L0"
tl[0].annotations.add_bound_attribute("label", annotation_name="list_label", owner_instance=tl)
l1 = dendropy.TreeList(tl)
l2 = copy.deepcopy(l1)
l2.label = "L2"
v = l2[0].annotations.find(name="list_label").value
if v != "L2":
    problems.append("TreeList: l2.label == 'L2' but the annotation bound to it says {!r}".format(v))

assert not problems, "; ".join(problems)
print("ok")
