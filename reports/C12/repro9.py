"""
C12 / "a taxon-namespace-scoped copy (copy constructor, clone(1), copy.copy)
shares exactly the namespace and its taxa and nothing else", route: copy.copy
(and clone(0)) of a TreeList and of a CharacterMatrix.

For a Tree copy.copy() is the namespace-scoped copy, as the property says.  For
the two collection classes it is not:
  * copy.copy(tree_list) / tree_list.clone(0) returns a new list holding the
    SAME Tree objects: rerooting / pruning / relabelling a tree through the
    copy changes the source;
  * copy.copy(matrix) / matrix.clone(0) returns a matrix holding the SAME
    sequence objects (editing a cell through the copy edits the source) and is
    not even equal to the source: comments, character_subsets, character_types
    are dropped, and for a StandardCharacterMatrix the state alphabet is
    replaced by a fresh default 0-9 alphabet.
(DataObject.clone() documents depth 0 as a shallow copy, so this is a mismatch
between the property as stated and the library rather than an accident.)

Needs: copy.copy()/clone(0) on a TreeList or matrix, then any in-place edit of
a member tree / sequence; or a matrix with character subsets / comments.
"""
import copy
import dendropy

problems = []

tl = dendropy.TreeList.get(data="[&R] ((A:1,B:2):1,C:3);[&R] ((A:1,C:2):1,B:3);", schema="newick")
dup = copy.copy(tl)
if dup[0] is tl[0]:
    problems.append("copy.copy(TreeList) holds the source's Tree objects")
before = tl[0].as_string("newick")
dup[0].prune_taxa_with_labels(["A"])
if tl[0].as_string("newick") != before:
    problems.append("pruning a tree of the copied list pruned the source's tree")

m = dendropy.DnaCharacterMatrix.get(data=">a\nACGT\n>b\nAC-T\n", schema="fasta")
m.new_character_subset("firsttwo", [0, 1])
m.comments.append("a comment")
mdup = copy.copy(m)
if mdup["a"] is m["a"]:
    problems.append("copy.copy(matrix) holds the source's sequence objects")
mdup["a"][0] = m.default_state_alphabet["T"]
if str(m["a"]) != "ACGT":
    problems.append("editing a cell of the copied matrix edited the source ({})".format(m["a"]))
if list(mdup.character_subsets.keys()) != ["firsttwo"]:
    problems.append("copy.copy(matrix) dropped the character subsets")
if mdup.comments != ["a comment"]:
    problems.append("copy.copy(matrix) dropped the comments")

assert not problems, "; ".join(problems)
print("ok")
