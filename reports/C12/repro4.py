"""
C12 / "a copy is equal to its source in structure ... extra attributes", route:
copy constructor Tree(src) (also TreeList(src), <Matrix>(src)).

Same root cause as repro2, seen without annotations: any reference to the tree
itself held inside the tree - the ordinary "nd.tree = tree" back-reference, an
annotation whose value is the tree, an AnnotationSet returned by
tree.annotations.findall() and stored on a node - refers, in the object built
by the copy constructor, to a hidden third Tree object (the temporary deep copy
whose __dict__ the new tree adopted), not to the copy.  In the source
`nd.tree is src` holds for every node; in copy.deepcopy(src) and src.clone(1)
`nd.tree is dup` holds; in Tree(src) it does not, so identity tests
(`nd.tree is my_tree`, dict/set lookups keyed by the tree) break on the copy.

Needs: an extra attribute (or annotation value) inside the tree that refers to
the tree; the copy-constructor route.
"""
import copy
import dendropy

src = dendropy.Tree.get(data="((A,B),C);", schema="newick")
for nd in src:
    nd.tree = src                      # extra attribute: back-reference

for name, route in [("copy.deepcopy", copy.deepcopy), ("clone(1)", lambda t: t.clone(1))]:
    dup = route(src)
    assert all(nd.tree is dup for nd in dup), name    # reference behaviour: fine

dup = dendropy.Tree(src)
assert all(nd.tree is not src for nd in dup)          # independent of the source: fine
wrong = [nd for nd in dup if nd.tree is not dup]
assert not wrong, (
    "Tree(src): {} of {} nodes of the copy refer to a hidden third tree object "
    "({!r}) instead of the copy ({!r})".format(
        len(wrong), len(dup.nodes()), wrong[0].tree, dup))
print("ok")
