"""
C12 / "a copy is equal to its source in structure, labels ... and sequences",
route: copy constructor with a different namespace, X(src, taxon_namespace=other)
(Tree, TreeList and every CharacterMatrix class share the code).

_clone_from() maps every taxon of the source namespace to
other.require_taxon(label=t.label).  Distinct source taxa whose labels are
equal *for the target namespace* are therefore merged into one taxon: labels
that differ only by case when the source namespace is case-sensitive and the
target is not (the default), or plainly duplicated labels (which a
TaxonNamespace allows).  Result:
  * tree: two different leaves of the copy carry the same Taxon object, the
    copy's namespace has fewer taxa than the source's, the leaf labels differ;
  * matrix: the two sequences collapse on one key - one sequence is silently
    LOST and the surviving taxon carries the other taxon's data.
copy.deepcopy() of the same objects keeps all taxa apart.

Needs: source namespace with is_case_sensitive=True holding 'a' and 'A' (or two
taxa with the same label); copy constructor with taxon_namespace=<a default
(case-insensitive) namespace>.
"""
import copy
import dendropy

ns = dendropy.TaxonNamespace(is_case_sensitive=True)
tree = dendropy.Tree.get(
        data="((a:1,A:2):1,(b:1,B:2):1);", schema="newick",
        taxon_namespace=ns, case_sensitive_taxon_labels=True)
assert len(ns) == 4 and len({lf.taxon for lf in tree.leaf_node_iter()}) == 4

deep = copy.deepcopy(tree)        # reference: a correct independent copy
assert len({lf.taxon for lf in deep.leaf_node_iter()}) == 4

problems = []
dup = dendropy.Tree(tree, taxon_namespace=dendropy.TaxonNamespace())
labels_src = [lf.taxon.label for lf in tree.leaf_node_iter()]
labels_dup = [lf.taxon.label for lf in dup.leaf_node_iter()]
if labels_src != labels_dup:
    problems.append("tree leaf labels {} became {}".format(labels_src, labels_dup))
if len({lf.taxon for lf in dup.leaf_node_iter()}) != 4:
    problems.append("tree: {} leaves share only {} taxa".format(
        len(labels_dup), len({lf.taxon for lf in dup.leaf_node_iter()})))

ns2 = dendropy.TaxonNamespace(is_case_sensitive=True)
m = dendropy.DnaCharacterMatrix.get(
        data=">a\nACGT\n>A\nTTTT\n>b\nGGGG\n", schema="fasta", taxon_namespace=ns2)
assert len(m) == 3
mdup = dendropy.DnaCharacterMatrix(m, taxon_namespace=dendropy.TaxonNamespace())
src_seqs = sorted(str(m[t]) for t in m)
dup_seqs = sorted(str(mdup[t]) for t in mdup)
if src_seqs != dup_seqs:
    problems.append("matrix sequences {} became {}".format(src_seqs, dup_seqs))

assert not problems, "; ".join(problems)
print("ok")
