"""
C12 / quantifier "for all trees (all shapes ...)", routes: deep copy, copy
constructor, clone(1), copy.copy.

Trees are copied by recursive descent through node -> child list -> node ...
(basemodel.Annotable.__deepcopy__), several interpreter frames per level, so
no copy at all can be made of a tree that is more than about 150-200 nodes
deep under the default recursion limit: copy.deepcopy(tree), Tree(tree),
tree.clone(1) and tree.clone(2) all die with RecursionError.  A pectinate
("ladder"/caterpillar) tree of 250 tips is enough; such trees parse, iterate,
encode bipartitions, write and extract_tree() without trouble, only copying
fails.

Needs: a tree of depth >= ~200 (here a 250-tip caterpillar); any copy route
other than extract_tree().
"""
import copy
import sys
import dendropy

assert sys.getrecursionlimit() <= 1000   # the interpreter default

N = 250
newick = "t0:1"
for i in range(1, N):
    newick = "({},t{}:1):1".format(newick, i)
tree = dendropy.Tree.get(data=newick + ";", schema="newick")
assert len(tree.leaf_nodes()) == N
tree.encode_bipartitions()                       # fine
assert len(tree.extract_tree().leaf_nodes()) == N  # fine (iterative)

failures = []
for name, route in [
        ("copy.deepcopy(tree)", copy.deepcopy),
        ("Tree(tree)", dendropy.Tree),
        ("tree.clone(1)", lambda t: t.clone(1)),
        ("tree.clone(2)", lambda t: t.clone(2)),
        ("copy.copy(tree)", copy.copy),
        ]:
    try:
        dup = route(tree)
        assert len(dup.leaf_nodes()) == N
    except RecursionError as e:
        failures.append("{}: RecursionError".format(name))
assert not failures, "a {}-tip caterpillar tree cannot be copied: {}".format(N, failures)
print("ok")
