"""
C12 / "attribute-bound annotations on the copy follow the copy's attributes",
route: Annotable.copy_annotations_from(other) (public; documented: "If
attribute_object_mapper is None (default) ... any references to ``other`` in
any Annotation object will be remapped to ``self``").

The default mapper is built as `{id(object): self}` - the id of the *builtin*
`object`, a typo for `id(other)` - so nothing is remapped: the copied
bound-attribute annotation stays bound to the attribute of the SOURCE.  The
annotation copied onto tree B reports A's label, keeps following later changes
of A, and ignores changes of B.

Needs: a bound-attribute annotation on the source; copy_annotations_from()
called without an explicit attribute_object_mapper.
"""
import dendropy

a = dendropy.Tree.get(data="(A,B);", schema="newick")
a.label = "tree A"
a.annotations.add_bound_attribute("label")
b = dendropy.Tree.get(data="(A,B);", schema="newick")
b.label = "tree B"
b.copy_annotations_from(a)

note = b.annotations.find(name="label")
assert note is not a.annotations.find(name="label")     # it is a copy
problems = []
if note.value != "tree B":
    problems.append("annotation copied to B is bound to {!r}".format(note.value))
a.label = "A renamed"
if note.value == "A renamed":
    problems.append("renaming A changes the annotation held by B")
assert not problems, "; ".join(problems)
print("ok")
