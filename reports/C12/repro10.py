"""
C12 (adjacent) / copy route "trees of a TreeList argument are *copied* into the
list" (TreeList.extend, +=), argument form: the list itself.

TreeList.extend(other) iterates over `other` while appending the copies to
self._trees; with `other is self` (`trees += trees`, `trees.extend(trees)`, the
usual way to double a list) the iterator never reaches the end: the call does
not terminate and memory grows without bound (about 60 000 trees after five
seconds here).  `trees + trees` and `trees[0:0] = trees` are fine.

Needs: a non-empty TreeList extended with itself.  The script gives the call
five seconds and fails if it is still running.
"""
import signal
import dendropy

trees = dendropy.TreeList.get(data="(A,B);(A,B);", schema="newick")

def on_alarm(signum, frame):
    raise AssertionError(
        "trees += trees still running after 5 s; the list holds {} trees".format(len(trees)))
signal.signal(signal.SIGALRM, on_alarm)
signal.alarm(5)
trees += trees
signal.alarm(0)
assert len(trees) == 4
assert all(t1 is not t2 for t1, t2 in zip(trees[:2], trees[2:]))
print("ok")
