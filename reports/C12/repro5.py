"""
C12 / "an extracted tree copies structure, lengths, labels and taxa",
routes: extract_tree_with_taxa(), extract_tree_with_taxa_labels(),
extract_tree_without_taxa(), extract_tree_without_taxa_labels().

The argument is documented as "iterable of Taxon instances" / "iterable of str
instances", but the node filter is `lambda nd: ... nd.taxon in set(taxa)`,
i.e. the iterable is re-read for every leaf.  With a one-shot iterable (a
generator, iter(...), map/filter object, dict view consumed elsewhere) only the
first leaf visited sees the members; all later leaves see an empty set.  No
error is raised: the extraction silently returns the wrong tree (with_*: only
one leaf survives, carrying the summed length of the whole path to the root;
without_*: only the first listed leaf is dropped).

Needs: an iterator/generator as the `taxa` / `labels` argument and at least
two leaves to keep (or to drop).  A list or set argument works.
"""
import dendropy

tree = dendropy.Tree.get(
        data="[&R] ((A:1,B:2)x:3,(C:4,(D:5,E:6)y:7)z:8)r:0.5;", schema="newick")
ns = tree.taxon_namespace
keep = [ns.get_taxon(label) for label in "ABD"]

def leafset(t):
    return sorted(lf.taxon.label for lf in t.leaf_node_iter())

ref = tree.extract_tree_with_taxa(keep)            # list: fine
assert leafset(ref) == ["A", "B", "D"]
ref_without = tree.extract_tree_without_taxa(keep)
assert leafset(ref_without) == ["C", "E"]

problems = []
got = leafset(tree.extract_tree_with_taxa(t for t in keep))
if got != ["A", "B", "D"]:
    problems.append("extract_tree_with_taxa(<generator of A,B,D>) has leaves {}".format(got))
got = leafset(tree.extract_tree_with_taxa_labels(iter("ABD")))
if got != ["A", "B", "D"]:
    problems.append("extract_tree_with_taxa_labels(iter('ABD')) has leaves {}".format(got))
got = leafset(tree.extract_tree_without_taxa(iter(keep)))
if got != ["C", "E"]:
    problems.append("extract_tree_without_taxa(iter([A,B,D])) has leaves {}".format(got))
got = leafset(tree.extract_tree_without_taxa_labels(x for x in "ABD"))
if got != ["C", "E"]:
    problems.append("extract_tree_without_taxa_labels(<generator>) has leaves {}".format(got))
assert not problems, "; ".join(problems)
print("ok")
