"""
C12 / quantifier "for all trees ... with ... extra attributes", routes: every
route built on deep copying (copy.deepcopy, clone(1), clone(2), copy
constructor, copy.copy).

AnnotationSet.__deepcopy__ looks its target up in the memo and raises
KeyError("deepcopy error: object id ... not found") when the target has not
been copied *yet*.  An AnnotationSet is what annotations.findall() and
annotations.drop() return, so keeping such a result as an extra attribute on a
node makes the whole tree uncopyable whenever the set's target is reached
later in the traversal than its holder - e.g. a node holding the matching
annotations of its next sibling.  (Holding those of the parent, or of the tree,
happens to work.)

Needs: an AnnotationSet obtained from findall()/drop() of node X stored as an
attribute of a node that is copied before X (an earlier sibling); any copy.
"""
import copy
import dendropy

tree = dendropy.Tree.get(data="((A,B),C);", schema="newick")
for nd in tree:
    nd.annotations.add_new("support", 1.0)
first, second = tree.seed_node.child_nodes()
first.sister_support = second.annotations.findall(name="support")   # extra attribute
assert first.sister_support.target is second

failures = []
for name, route in [("copy.deepcopy", copy.deepcopy), ("Tree(tree)", dendropy.Tree),
                    ("clone(1)", lambda t: t.clone(1))]:
    try:
        dup = route(tree)
        d_first, d_second = dup.seed_node.child_nodes()
        assert d_first.sister_support.target is d_second
    except KeyError as e:
        failures.append("{}: KeyError {}".format(name, str(e)[:60]))
assert not failures, "; ".join(failures)
print("ok")
