"""
C12 / "a deep copy of a ... character matrix ... shares no mutable part with
it", routes: copy.deepcopy, clone(2) (and clone(1), copy constructor with a new
namespace) of a StandardCharacterMatrix (any matrix with its own, non-global
state alphabet).

StateAlphabet.__deepcopy__ (and StateIdentity.__deepcopy__) return self, so the
"deep" copy of a standard matrix uses the very same StateAlphabet object as the
source.  A StateAlphabet is a mutable, annotable data object: states can be
added (new_fundamental_state / new_ambiguous_state / new_polymorphic_state),
symbol synonyms added, it has a label and annotations.  Defining a new state,
relabelling or annotating the alphabet of the copy changes the alphabet of the
source (and what symbols the source will accept / write).

(The library's own test helper asserts `sa1 is sa2`, so this is deliberate
library design; it is nevertheless a mutable part shared by a deep copy.)

Needs: StandardCharacterMatrix (own alphabet); deep copy; later edit of the
copy's alphabet (new state, label, annotation).
"""
import copy
import dendropy

NEXUS = """#NEXUS
begin data;
  dimensions ntax=2 nchar=3;
  format datatype=standard symbols="01";
  matrix
    a 010
    b 111
  ;
end;
"""
src = dendropy.StandardCharacterMatrix.get(data=NEXUS, schema="nexus")
before = [s.symbol for s in src.default_state_alphabet]
dup = copy.deepcopy(src)
assert dup.taxon_namespace is not src.taxon_namespace      # it *is* a deep copy

alphabet = dup.default_state_alphabet
alphabet.new_fundamental_state("7")
alphabet.label = "alphabet of the copy"
alphabet.annotations.add_new("note", "copy only")

after = [s.symbol for s in src.default_state_alphabet]
problems = []
if after != before:
    problems.append("source alphabet states {} became {}".format(before, after))
if src.default_state_alphabet.label == "alphabet of the copy":
    problems.append("source alphabet relabelled through the copy")
if len(src.default_state_alphabet.annotations) != 0:
    problems.append("source alphabet annotated through the copy")
assert not problems, "; ".join(problems)
print("ok")
