"""
C06, clause: "SumTrees produces the same summary tree and supports when run
serially and when run with any number of worker processes, whichever worker
happens to read whichever input file" (sources may contribute no trees).

Violation: in multiprocessing mode SumTrees derives the taxon names from the
first tree of the *first* source (TreeProcessor.discover_taxa).  If the first
source holds no trees (an empty / comment-only file, e.g. a chain that has not
written anything yet) discover_taxa() returns None and
parallel_analyze_trees() dies with
    TypeError: 'NoneType' object is not iterable
before any worker is started, whereas the serial run of the very same
command line succeeds (the empty source simply contributes nothing).
The same files in another order (empty source not first) work in both modes.

Takes: >= 2 sources, -m/--multiprocess >= 2, first source without trees.
CLI equivalent:  sumtrees.py -m 2 empty.tre a.tre b.tre   (vs. without -m)
"""
import sys
from _common import write_files, run_sumtrees, label_summary

F1 = "((a:1,b:1):1,(c:1,d:1):1,e:1);\n((a:1,b:1):1,(c:1,d:1):1,e:1);\n((a:1,c:1):1,(b:1,d:1):1,e:1);\n"
F2 = "((a:2,b:2):2,(c:2,e:2):2,d:2);\n((a:2,b:2):2,(c:2,d:2):2,e:2);\n"

if __name__ == "__main__":
    paths = write_files(["", F1, F2])
    serial = label_summary(run_sumtrees(paths, num_processes=1))
    assert serial[0] == 5, serial
    # control: same sources, empty one last -> parallel == serial
    control = label_summary(run_sumtrees(paths[1:] + paths[:1], num_processes=2))
    assert control == serial, (control, serial)
    # the failing case: empty source first, 2 workers
    parallel = label_summary(run_sumtrees(paths, num_processes=2))   # raises TypeError
    assert parallel == serial, (parallel, serial)
    print("ok")
