"""
C06, clause: "SumTrees produces the same summary tree and supports when run
serially and when run with any number of worker processes".

Violation: multiprocessing mode fixes the taxon namespace from the FIRST TREE of
the first source only (TreeProcessor.discover_taxa) and gives every worker an
immutable copy.  Any taxon that does not occur in that one tree makes the
parallel run fail with
    ImmutableTaxonNamespaceError: Taxon 'e' cannot be added to an immutable TaxonNamespace
while the serial run of the same command line succeeds.  This happens even when
the offending first tree is discarded as burn-in, i.e. when every tree that is
actually summarised has exactly the same taxa (second half of the script).

Takes: >= 2 sources, >= 2 worker processes, a first tree (of the first source)
that lacks a taxon present in later trees (incomplete leaf set, or a burn-in
tree from before a taxon was added).
CLI equivalent:  sumtrees.py -b 1 -m 2 g1.tre g2.tre    (vs. without -m)
"""
from _common import write_files, run_sumtrees, label_summary

G1 = "((a:1,b:1):1,(c:1,d:1):1);\n((a:1,b:1):1,(c:1,d:1):1,e:1);\n((a:1,b:1):1,(c:1,d:1):1,e:1);\n"
G2 = "((a:2,b:2):2,(c:2,e:2):2,d:2);\n((a:2,b:2):2,(c:2,d:2):2,e:2);\n((a:2,b:2):2,(c:2,d:2):2,e:2);\n"

if __name__ == "__main__":
    paths = write_files([G1, G2])
    # burn-in of 1 per source: the 4-taxon tree is never summarised
    serial = label_summary(run_sumtrees(paths, num_processes=1, tree_offset=1))
    assert serial[0] == 4, serial
    parallel = label_summary(run_sumtrees(paths, num_processes=2, tree_offset=1))  # raises
    assert parallel == serial, (parallel, serial)
    # without burn-in (trees of different leaf sets, which SumTrees supports serially)
    serial = label_summary(run_sumtrees(paths, num_processes=1))
    parallel = label_summary(run_sumtrees(paths, num_processes=3))
    assert parallel == serial, (parallel, serial)
    print("ok")
