"""
C06, clause: "the same per-split collections of edge lengths and node ages
(as multisets) ... whether the trees are added one at a time ... or collected
in separately built sub-collections ... that are merged", and "SumTrees
produces the same summary ... when run serially and when run with any number
of worker processes".

Violation: SplitDistribution.update() does
    self.split_node_ages[split]  += split_dist.split_node_ages[split]
    self.split_edge_lengths[split] += split_dist.split_edge_lengths[split]
on defaultdicts, so every merge creates an (empty) entry for every split in
the per-split tables of the receiver *and of the source that is merely read
from*, even when node ages (or edge lengths) are not being collected at all.
A collection built by adding the trees one at a time has ``split_node_ages ==
{}``; the same trees collected in two sub-collections and merged (update /
extend / += / +) have ``{split: [], ...}``.  Visible consequences:
  * ``TreeArray.split_distribution.split_node_ages`` differs (and is truthy);
  * the source sub-collection is modified by being merged from;
  * ``sumtrees.py -x PREFIX`` writes an extra, empty PREFIX.node-ages.tsv when
    run with -m 2 that the serial run does not write (it tests the
    truthiness of ``split_node_ages``).

Takes: default settings (ignore_node_ages=True) or ignore_edge_lengths=True,
and any merge, including merging an EMPTY sub-collection's worth of splits.
"""
import dendropy

NEWICKS = [
    "[&R] ((a:1,b:1):1,(c:1,d:1):1);",
    "[&R] ((a:1,c:1):1,(b:1,d:1):1);",
    "[&R] ((a:2,b:2):2,(c:2,d:2):2);",
]


def build(tns, newicks, **kw):
    ta = dendropy.TreeArray(taxon_namespace=tns, **kw)
    for s in newicks:
        ta.add_tree(dendropy.Tree.get(data=s, schema="newick", taxon_namespace=tns))
    return ta


if __name__ == "__main__":
    tns = dendropy.TaxonNamespace(["a", "b", "c", "d"])
    sequential = build(tns, NEWICKS)
    part1 = build(tns, NEWICKS[:2])
    part2 = build(tns, NEWICKS[2:])
    before = dict(part2.split_distribution.split_node_ages)
    merged = build(tns, [])
    merged.update(part1)
    merged.update(part2)
    # counts agree ...
    assert dict(merged.split_distribution.split_counts) == dict(sequential.split_distribution.split_counts)
    # ... the source of a merge is left alone ...
    after = dict(part2.split_distribution.split_node_ages)
    # ... and the per-split node-age tables agree
    seq_ages = dict(sequential.split_distribution.split_node_ages)
    mrg_ages = dict(merged.split_distribution.split_node_ages)
    assert seq_ages == mrg_ages, "per-split node ages: sequential %r, merged %r" % (seq_ages, mrg_ages)
    assert before == after, "source modified by merge: %r -> %r" % (before, after)
    # same for edge lengths when they are ignored
    s2 = build(tns, NEWICKS, ignore_edge_lengths=True)
    m2 = build(tns, NEWICKS[:1], ignore_edge_lengths=True) + build(tns, NEWICKS[1:], ignore_edge_lengths=True)
    assert dict(s2.split_distribution.split_edge_lengths) == dict(m2.split_distribution.split_edge_lengths)
    print("ok")
