"""
C06, clause: "SumTrees produces the same summary ... when run serially and
when run with any number of worker processes" (same root cause as repro4.py,
seen through the command line program).

Violation: with extended output (-x PREFIX) and node ages NOT being summarised,
the serial run writes PREFIX.{summary...,topologies.trees,bipartitions.trees,
bipartitions.tsv,edge-lengths.tsv}; the run with worker processes additionally
writes an (all-empty) PREFIX.node-ages.tsv, because merging the workers'
results leaves ``split_distribution.split_node_ages`` a non-empty dict of
empty lists and sumtrees.py tests its truthiness.

Takes: -x/--extended-output, >= 2 sources, -m >= 2, no --summarize-node-ages.
"""
import os
import subprocess
import sys
import tempfile

import dendropy

F1 = "((a:1,b:1):1,(c:1,d:1):1,e:1);\n((a:1,c:1):1,(b:1,d:1):1,e:1);\n"
F2 = "((a:2,b:2):2,(c:2,e:2):2,d:2);\n((a:2,b:2):2,(c:2,d:2):2,e:2);\n"


def run(extra, workdir, tag, sources):
    prefix = os.path.join(workdir, tag)
    cmd = [sys.executable, "-m", "dendropy.application.sumtrees", "-q", "-r",
           "-o", prefix + ".out.tre", "-x", prefix] + extra + sources
    env = dict(os.environ)
    env["PYTHONPATH"] = os.path.dirname(os.path.dirname(dendropy.__file__))
    subprocess.run(cmd, check=True, env=env, stdout=subprocess.DEVNULL, stderr=subprocess.DEVNULL, timeout=600)
    return sorted(f[len(tag):] for f in os.listdir(workdir) if f.startswith(tag))


if __name__ == "__main__":
    d = tempfile.mkdtemp(prefix="c06_")
    sources = []
    for i, text in enumerate((F1, F2)):
        p = os.path.join(d, "in%d.tre" % i)
        open(p, "w").write(text)
        sources.append(p)
    serial = run([], d, "serial", sources)
    parallel = run(["-m", "2"], d, "parallel", sources)
    assert serial == parallel, "files written serially: %s; with 2 workers: %s" % (serial, parallel)
    print("ok")
