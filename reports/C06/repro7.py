"""
C06, clauses: "separately built sub-collections - some possibly empty - that
are merged in any arrival order" / "all interleavings of add/.../update/...
operations" (node ages with tip dates).

Violation: TreeArray.update() lets an EMPTY receiver take over the collecting
configuration of the collection it is updated from (ignore_edge_lengths,
ignore_node_ages, use_tree_weights are adopted, and since a recent repair also
passed on to the receiver's SplitDistribution) - but the rest of the node-age
configuration (taxon_label_age_map, is_force_max_age,
ultrametricity_precision) is NOT adopted.  A fresh ``TreeArray(taxon_namespace=
tns)`` used as the master that partial results are merged into therefore
collects node ages after the first merge, but computes them for trees added to
it afterwards as if all tips were contemporaneous: with tip dates the next
add_tree() raises UltrametricityError (or, with is_force_max_age, silently
records different ages), whereas the same trees added one at a time to a
configured collection work.

Takes: ignore_node_ages=False + taxon_label_age_map (tip dates) on the
sub-collection, an empty receiver created with default settings, a merge
followed by a directly added tree.
"""
import dendropy

T1 = "[&R] ((a:1,b:2):1,(c:1,d:1):2);"
T2 = "[&R] ((a:2,b:3):1,(c:2,d:2):2);"
TIP_AGES = {"a": 1.0}      # 'a' was sampled one time unit before the others


def ages(ta):
    return {k: sorted(v) for k, v in ta.split_distribution.split_node_ages.items() if v}


if __name__ == "__main__":
    tns = dendropy.TaxonNamespace(["a", "b", "c", "d"])
    get = lambda s: dendropy.Tree.get(data=s, schema="newick", taxon_namespace=tns)
    kw = dict(taxon_namespace=tns, ignore_node_ages=False, taxon_label_age_map=TIP_AGES)
    sequential = dendropy.TreeArray(**kw)
    sequential.add_tree(get(T1))
    sequential.add_tree(get(T2))

    part = dendropy.TreeArray(**kw)
    part.add_tree(get(T1))
    master = dendropy.TreeArray(taxon_namespace=tns)   # empty receiver, default settings
    master.update(part)                                 # adopts ignore_node_ages=False
    assert master.ignore_node_ages is False
    master.add_tree(get(T2))                            # raises UltrametricityError
    assert ages(master) == ages(sequential), (ages(master), ages(sequential))
    print("ok")
