"""
C06, clauses: "Merging never fails for collections that are compatible in
rooting and settings" / "the same split counts ... whether the trees are added
one at a time in any order" - history with a failed call followed by a retry.

Violation: TreeArray.add_tree() changes the collection before it knows that
the tree can be accepted: validate_rooting() fixes ``is_rooted_trees`` and
SplitDistribution.count_splits_on_tree() increments ``total_trees_counted``
before tree.calc_node_ages() gets the chance to reject the tree
(UltrametricityError).  After one rejected tree a still EMPTY collection
  * reports total_trees_counted == 1 with len() == 0 (and keeps being off by
    one after further adds / merges),
  * is locked to the rooting of the rejected tree: the retry with the
    (rooted) trees that were meant to go in fails with MixedRootingError, and
    ``extend``/``+=`` from a compatible rooted collection with identical
    settings fails with AssertionError although the receiver holds no tree.

Takes: ignore_node_ages=False, a first tree that is rejected as
non-ultrametric and whose rooting differs from the trees that follow, then a
retry / merge.
"""
import dendropy

GOOD = ["[&R] ((a:1,b:1):1,(c:1,d:1):1);", "[&R] ((a:1,c:1):1,(b:1,d:1):1);"]
BAD = "[&U] ((a:1,b:5):1,(c:1,d:1):1);"       # not ultrametric

if __name__ == "__main__":
    tns = dendropy.TaxonNamespace(["a", "b", "c", "d"])
    get = lambda s: dendropy.Tree.get(data=s, schema="newick", taxon_namespace=tns)
    kw = dict(taxon_namespace=tns, ignore_node_ages=False)

    clean = dendropy.TreeArray(**kw)
    for s in GOOD:
        clean.add_tree(get(s))

    ta = dendropy.TreeArray(**kw)
    try:
        ta.add_tree(get(BAD))
    except Exception as e:                       # UltrametricityError: tree rejected
        print("rejected:", type(e).__name__)
    assert len(ta) == 0
    problems = []
    if ta.split_distribution.total_trees_counted != 0:
        problems.append("empty collection reports total_trees_counted=%d" % ta.split_distribution.total_trees_counted)
    if ta.is_rooted_trees is not None:
        problems.append("empty collection is locked to is_rooted_trees=%r" % ta.is_rooted_trees)
    try:
        ta.extend(clean)                          # compatible settings, receiver is empty
    except AssertionError:
        problems.append("extend() from a compatible collection fails with AssertionError")
    try:
        for s in GOOD:
            ta.add_tree(get(s))
    except Exception as e:
        problems.append("retry fails: %r" % (e,))
    assert not problems, "; ".join(problems)
    print("ok")
