"""
C06, clause: "Summarising a sample of trees gives ... the same consensus tree
... whether the trees are added one at a time in any order" (also: SumTrees
gives the same summary whichever order the input files are named in).

Violation: SplitDistribution.consensus_tree() resolves conflicts between
splits of EQUAL frequency by the numeric value of the split bitmask
(``to_try_to_add.sort(reverse=True)`` on (freq, bitmask) pairs).  Bit positions
are handed out in the order in which taxa are first seen, so when the taxon
namespace is not pre-populated (TreeArray() + read(), TreeList.get(), SumTrees
serial mode, ...) the winner of a tie depends on which tree was read first.
The same two trees read in the two possible orders give two different
consensus trees; with a shared pre-populated namespace they do not.

Takes: an implicitly grown taxon namespace, min_freq <= 0.5 (e.g. the classic
50% majority rule ``min_freq=0.5`` / ``sumtrees.py -f 0.5``) and two
incompatible splits with the same frequency.
"""
import dendropy

T1 = "[&R] ((a,b),(c,d));"
T2 = "[&R] ((c,a),(d,b));"


def clades(tree):
    return sorted(
        sorted(l.taxon.label for l in nd.leaf_iter())
        for nd in tree.internal_nodes() if nd is not tree.seed_node)


def consensus_for(order, taxon_namespace=None):
    ta = dendropy.TreeArray(taxon_namespace=taxon_namespace)
    for t in order:
        ta.read(data=t, schema="newick")      # trees added one at a time
    freqs = sorted(round(f, 6) for f in ta.split_distribution.split_frequencies.values())
    return clades(ta.consensus_tree(min_freq=0.5)), freqs


if __name__ == "__main__":
    # control: pre-populated namespace -> order does not matter
    c1 = consensus_for([T1, T2], dendropy.TaxonNamespace(["a", "b", "c", "d"]))
    c2 = consensus_for([T2, T1], dendropy.TaxonNamespace(["a", "b", "c", "d"]))
    assert c1 == c2, (c1, c2)
    # implicit namespace: same sample, two orders
    r1 = consensus_for([T1, T2])
    r2 = consensus_for([T2, T1])
    assert r1[1] == r2[1]                      # same split frequencies ...
    assert r1[0] == r2[0], "consensus depends on order of addition: %s vs %s" % (r1[0], r2[0])
    print("ok")
