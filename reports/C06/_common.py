"""Helpers shared by the reproducers (public DendroPy API only)."""
import os
import tempfile

import dendropy
from dendropy.application import sumtrees


def write_files(contents):
    """Write each string in ``contents`` to its own file, return the paths."""
    d = tempfile.mkdtemp(prefix="c06_")
    paths = []
    for i, text in enumerate(contents):
        p = os.path.join(d, "src%d.tre" % i)
        with open(p, "w") as f:
            f.write(text)
        paths.append(p)
    return paths


def run_sumtrees(paths, num_processes, schema="nexus/newick", tree_offset=0,
                 is_source_trees_rooted=None, ignore_node_ages=True):
    """Run the SumTrees analysis engine (what ``sumtrees.py`` calls) and
    return the resulting TreeArray."""
    tp = sumtrees.TreeProcessor(
        is_source_trees_rooted=is_source_trees_rooted,
        ignore_edge_lengths=False,
        ignore_node_ages=ignore_node_ages,
        use_tree_weights=True,
        ultrametricity_precision=dendropy.utility.constants.DEFAULT_ULTRAMETRICITY_PRECISION,
        taxon_label_age_map=None,
        num_processes=num_processes,
        log_frequency=0,
        messenger=None,
        debug_mode=False,
    )
    return tp.analyze_trees(tree_sources=paths, schema=schema, tree_offset=tree_offset)


def label_summary(tree_array, min_freq=0.5):
    """(number of trees, {frozenset(labels of one side of split): support})
    of the consensus tree - comparable across taxon namespaces."""
    con = tree_array.consensus_tree(min_freq=min_freq)
    all_labels = frozenset(t.label for t in tree_array.taxon_namespace)
    out = {}
    for nd in con.postorder_node_iter():
        side = frozenset(l.taxon.label for l in nd.leaf_iter())
        if not con.is_rooted:
            other = all_labels - side
            side = min(side, other, key=lambda s: (len(s), sorted(s)))
        out[side] = round(nd.support, 9)
    return len(tree_array), out
