"""
C06, clause: "the same split counts and frequencies ... and therefore the same
consensus tree ... whether the trees are added one at a time in any order"
(weighted trees, e.g. MrBayes .trprobs input / ``sumtrees.py --weighted-trees``).

Violation: split counts and the normalisation constant are running float sums
(``split_counts[split] += weight``, ``sum_of_tree_weights += weight``), which are
not associative.  Three trees with weights 0.1, 0.2 and 0.3: the split that
occurs only in the 0.3 tree has frequency 0.3/0.6.  Added in the order
(0.3, 0.2, 0.1) the total is exactly 0.6 and the frequency 0.5, so the split is
in the 50% majority-rule consensus; added in the order (0.3, 0.1, 0.2) the total
is 0.6000000000000001, the frequency 0.49999999999999994 and the split is
dropped.  The same happens between sub-collections merged in different orders.

Takes: tree weights that are not exactly representable, a split whose
frequency sits exactly on ``min_freq``, and two different orders of addition /
arrival.
"""
import dendropy

AB = "[&W 0.3] [&R] ((a:1,b:1):1,(c:1,d:1):1);"
AC = "[&W 0.2] [&R] ((a:1,c:1):1,(b:1,d:1):1);"
AD = "[&W 0.1] [&R] ((a:1,d:1):1,(b:1,c:1):1);"


def consensus_clades(order):
    tns = dendropy.TaxonNamespace(["a", "b", "c", "d"])
    ta = dendropy.TreeArray(taxon_namespace=tns)
    for s in order:
        ta.add_tree(dendropy.Tree.get(data=s, schema="newick", taxon_namespace=tns, store_tree_weights=True))
    con = ta.consensus_tree(min_freq=0.5)
    return sorted(sorted(l.taxon.label for l in nd.leaf_iter())
                  for nd in con.internal_nodes() if nd is not con.seed_node)


if __name__ == "__main__":
    one = consensus_clades([AB, AC, AD])
    two = consensus_clades([AB, AD, AC])
    assert one == two, "consensus depends on order of addition: %s vs %s" % (one, two)
    print("ok")
