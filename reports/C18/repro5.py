"""
C18 clause violated: "a birth-death tree grown to N extant tips has exactly N
extant leaves carrying N distinct taxa ... and is well formed" -- after the
call some taxa sit on TWO nodes of the tree (an internal node and a leaf), so
``tree.find_node_with_taxon_label`` / taxon-to-node maps / bipartition
encoding see the same taxon twice.

What it takes: an object re-used across calls -- the documented ``tree=``
argument ("if given, then this tree will be used") with a tree that already
carries taxa on its tips, e.g. the result of an earlier birth_death_tree call
that is now grown further.  Tips that speciate become internal nodes but keep
their Taxon; the final assignment then deals the whole namespace (including
those taxa) out to the leaves again.  No deaths needed; every seed shows it.
"""
import random
from dendropy.simulate import treesim

for seed in range(5):
    rng = random.Random(seed)
    tree = treesim.birth_death_tree(1.0, 0.0, num_extant_tips=4, rng=rng)
    tree2 = treesim.birth_death_tree(1.0, 0.0, num_extant_tips=8, tree=tree, rng=rng)
    assert tree2 is tree
    assert len(tree.leaf_nodes()) == 8
    with_taxon = [nd for nd in tree.preorder_node_iter() if nd.taxon is not None]
    internal = [nd.taxon.label for nd in with_taxon if nd.child_nodes()]
    taxa = [nd.taxon for nd in with_taxon]
    assert len(set(taxa)) == len(taxa), (
        "seed %d: taxa carried by two nodes each (internal nodes still hold %s): %s"
        % (seed, internal, tree.as_string("newick").strip()))
print("ok")
