"""
C18 clause violated: "a gene tree simulated inside a species tree ... [is]
well formed / never joins lineages from different species more recently than
those species diverged" -- the second gene tree has infinite edge lengths and
ignores the species tree.

Simulator: ContainingTree.embed_contained_kingman with the class's DEFAULT
settings (fit_containing_edge_lengths=True).

What it takes: a history of two calls on one ContainingTree.  The first call
simulates a correct gene tree and embeds it; embedding re-fits the species
tree's node ages to the gene tree, but the freshly simulated gene tree carries
no bipartition bitmasks, so every inter-group age comes out as +inf and the
species tree's edge lengths become inf / nan.  The second simulated gene tree
is then grown inside branches of infinite length: every species coalesces
completely inside its own tip branch, the stems get length inf, and the deeper
joins no longer follow the species tree (e.g. genes of B join genes of D before
genes of A, although the species tree is ((A,B),(C,D))).
"""
import math
import random
import dendropy
from dendropy.model import reconcile

sp = dendropy.Tree.get(data="((A:1,B:1):1,(C:0.5,D:0.5):1.5);", schema="newick")
m = dendropy.TaxonNamespaceMapping.create_contained_taxon_mapping(
    sp.taxon_namespace, 2)
ct = reconcile.ContainingTree(sp, m.domain_taxon_namespace, m)

for call in (1, 2, 3):
    g = ct.embed_contained_kingman(rng=random.Random(call))
    lengths = [nd.edge.length for nd in g.preorder_node_iter()
               if nd.parent_node is not None]
    assert all(math.isfinite(x) for x in lengths), (
        "call %d: gene tree has non-finite edge lengths:\n  %s\n"
        "species tree is now:\n  %s"
        % (call, g.as_string("newick").strip(),
           ct.as_string("newick").strip()))
print("ok")
