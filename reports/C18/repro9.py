"""
C18 clause violated: "for ... all numbers of genes per species" the gene-tree
simulator returns a tree: contained_coalescent_tree raises KeyError instead.

What it takes: a species that gets ZERO genes, e.g. ``num_contained=[2, 0, 2,
2]`` in TaxonNamespaceMapping.create_contained_taxon_mapping (a per-species
list is a documented form).  The species is then missing from ``map.reverse``,
no (empty) gene list is made for its leaf, and the edge loop looks the leaf
up unconditionally.  constrained_kingman_tree copes with empty species.
(Only a violation if a count of zero is admissible.)
"""
import random
import dendropy
from dendropy.simulate import treesim

sp = dendropy.Tree.get(data="((A:1,B:1):1,(C:0.5,D:0.5):1.5);", schema="newick")
m = dendropy.TaxonNamespaceMapping.create_contained_taxon_mapping(
    sp.taxon_namespace, [2, 0, 2, 2])
g = treesim.contained_coalescent_tree(sp, m, rng=random.Random(1))  # KeyError
assert len(g.leaf_nodes()) == 6
print("ok")
