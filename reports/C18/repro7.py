"""
C18 clause violated: "a birth-death ... tree grown to N extant tips has
exactly N extant leaves".

Simulator: dendropy.simulate.treesim.discrete_birth_death_tree(ntax=N) (the
discrete-generation birth-death simulator; "tree is grown until the number of
tips == ntax").

What it takes: nothing special -- in one generation every leaf may split, and
the tip count is only compared with ``ntax`` between generations, so the tree
regularly overshoots (about 40% of seeds for birth probability 0.2-0.5).
"""
import random
from dendropy.simulate import treesim

bad = []
for seed in range(30):
    n = 5
    tree = treesim.discrete_birth_death_tree(
        0.5, 0.0, ntax=n, rng=random.Random(seed), repeat_until_success=True)
    if len(tree.leaf_nodes()) != n:
        bad.append((seed, len(tree.leaf_nodes())))
assert not bad, "ntax=5 but (seed, number of leaves) = %s" % bad
print("ok")
