"""
C18 clause violated: "every simulator is a deterministic function of its
arguments and the generator state: two runs from equal generator states
return identical trees" (use of the process-global generator although a
generator was supplied).

Simulator: dendropy.simulate.treesim.rand_trees (exported in
treesim.__all__), and the coalescence_ages / birthdeath_coalescence_ages
wrappers built on it.

What it takes: model keyword arguments given as a mapping (the first of the
three documented forms) or as an iterable of mappings.  The ``rng`` argument
is only ever passed to a *callable* ``model_kwargs``; it is never forwarded to
the model function, so birth_death_tree falls back to GLOBAL_RNG and the
supplied generator is not even advanced.
"""
import random
from dendropy.simulate import treesim

kw = dict(birth_rate=1.0, death_rate=0.0, num_extant_tips=6)


def run():
    rng = random.Random(5)
    trees = list(treesim.rand_trees(rng, treesim.birth_death_tree, kw, 3))
    return [t.as_string("newick") for t in trees], rng.getstate()


a, state_a = run()
b, state_b = run()
untouched = random.Random(5).getstate()
assert a == b, "rand_trees: same seed, different trees:\n%s\n%s" % (a[0], b[0])
assert state_a != untouched, "supplied generator was never used"
print("ok")
