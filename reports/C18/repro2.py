"""
C18 clause violated: "a gene tree simulated inside a species tree ...; every
simulator is a deterministic function of its arguments and the generator
state: two runs from equal generator states return identical trees".

Simulator: dendropy.model.reconcile.ContainingTree.simulate_contained_kingman
(also reached through embed_contained_kingman).

What it takes: two or more genes per species.  The gene nodes of every species
are created by iterating ``edge.contained_taxa``, a *set* of Taxon objects.
Taxon objects hash by memory address, so the order of the gene nodes in the
list handed to coalesce_nodes -- and with it the pair that ``rng.sample``
picks -- depends on where the Taxon objects happen to live in memory.  Equal
arguments (same Newick string, same mapping construction) and an equal
generator state therefore give different gene trees from one construction to
the next, within a process and across processes.  (contained_coalescent_tree
visits the same kind of set in namespace order and is not affected.)
"""
import random
import dendropy
from dendropy.model import reconcile


def one_run(seed, n_junk):
    junk = [object() for _ in range(n_junk)]  # shifts later allocations
    sp = dendropy.Tree.get(
        data="((A:1,B:1):1,(C:0.5,D:0.5):1.5);", schema="newick")
    m = dendropy.TaxonNamespaceMapping.create_contained_taxon_mapping(
        sp.taxon_namespace, 6)
    ct = reconcile.ContainingTree(
        sp, m.domain_taxon_namespace, m, fit_containing_edge_lengths=False)
    g = ct.simulate_contained_kingman(rng=random.Random(seed))
    del junk
    return g.as_string("newick")


results = [one_run(1, i * 37) for i in range(12)]
assert len(set(results)) == 1, (
    "equal arguments + equal generator state gave %d different gene trees "
    "in 12 runs" % len(set(results)))
print("ok")
