"""
C18 clause violated (weakly): the simulator does not meet its own
specification for an admissible flag combination.

Simulator: constrained_kingman_tree(gene_sampling_strategy="node_attribute").
The docstring says that ``num_genes`` "will be set to 1 under the
'node_attribute' strategy (serving as a fallback default for nodes that do not
specify num_genes_attr)", and the code does set ``num_genes = 1`` -- but then
reads ``getattr(leaf, num_genes_attr)`` without the fallback.

What it takes: strategy "node_attribute" and at least one species-tree leaf
without the attribute.
"""
import random
import dendropy
from dendropy.simulate import treesim

sp = dendropy.Tree.get(data="((A:1,B:1):1,(C:0.5,D:0.5):1.5);", schema="newick")
for nd in sp.leaf_node_iter():
    if nd.taxon.label != "D":
        nd.num_genes = 2
g, _ = treesim.constrained_kingman_tree(
    sp, rng=random.Random(1), gene_sampling_strategy="node_attribute")  # AttributeError
assert len(g.leaf_nodes()) == 7
print("ok")
