"""
C18 clause violated: "a birth-death tree grown to N extant tips ... has all
extant tips at the same distance from the root" (and, when the wreck already
has N or more tips, none of the N "extant" leaves was ever alive at the end).

What it takes: a failed call followed by a retry on the same object.
  1. ``t = dendropy.Tree()`` (the way the library's own tests supply a tree),
  2. ``birth_death_tree(..., tree=t, repeat_until_success=False)`` raises
     TreeSimTotalExtinctionException for this generator state and leaves the
     dead lineages attached to ``t``,
  3. the caller catches the exception and calls birth_death_tree(..., tree=t)
     again.
The second call classifies tips by ``getattr(nd, 'is_extinct', False)``; the
first call marked its extinct tips with ``None`` instead of ``True`` (the
known oddity), so every dead lineage -- each of which stopped at a different
time -- is resurrected as an extant tip and grown further.  With birth 1.0 /
death 0.8 about a quarter of the retries end non-ultrametric.
"""
import random
import dendropy
from dendropy.simulate import treesim
from dendropy.utility.error import TreeSimTotalExtinctionException

N = 6
bad = []
retries = 0
for seed in range(60):
    rng = random.Random(seed)
    t = dendropy.Tree()
    try:
        treesim.birth_death_tree(1.0, 0.8, num_extant_tips=N, tree=t, rng=rng,
                                 repeat_until_success=False)
        continue
    except TreeSimTotalExtinctionException:
        pass
    retries += 1
    treesim.birth_death_tree(1.0, 0.8, num_extant_tips=N, tree=t, rng=rng)
    d = [nd.distance_from_root() for nd in t.leaf_node_iter()]
    if len(d) != N or max(d) - min(d) > 1e-9:
        bad.append((seed, len(d), round(max(d) - min(d), 4)))
assert retries > 0
assert not bad, (
    "%d of %d retries returned a bad tree (seed, leaves, depth spread): %s"
    % (len(bad), retries, bad))
print("ok")
