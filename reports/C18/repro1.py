"""
C18 clause violated: "a birth-death tree grown to N extant tips has exactly N
extant leaves carrying N DISTINCT taxa ... with or without a supplied
namespace".

What it takes: a supplied TaxonNamespace (default, i.e. case-insensitive) that
holds k taxa, 0 < k < N, whose labels are lower-case variants of the labels the
simulator makes up itself ("t1", "t2", ... instead of "T1", "T2", ...).

birth_death_tree first hands out the k existing taxa, then invents labels
"T1", "T2", ...; it checks the invented label against a *case-sensitive* set of
existing labels, finds "T1" unused, and calls
taxon_namespace.require_taxon(label="T1"), which looks up case-INsensitively
and returns the existing taxon "t1" -- which already sits on another leaf.
Every seed shows it.
"""
import random
import dendropy
from dendropy.simulate import treesim

N = 6
for k in (1, 3, 5):
    for seed in range(5):
        ns = dendropy.TaxonNamespace(["t%d" % (i + 1) for i in range(k)])
        tree = treesim.birth_death_tree(
            birth_rate=1.0, death_rate=0.0, num_extant_tips=N,
            taxon_namespace=ns, rng=random.Random(seed))
        leaves = tree.leaf_nodes()
        assert len(leaves) == N
        taxa = [nd.taxon for nd in leaves]
        assert len(set(taxa)) == N, (
            "k=%d seed=%d: %d leaves carry only %d distinct taxa: %s"
            % (k, seed, N, len(set(taxa)), sorted(t.label for t in taxa)))
print("ok")
