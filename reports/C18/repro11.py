"""
C18 clause violated (weakly): "for every admissible parameter setting ..." --
``rng=None`` is accepted by every other simulator of the family
(uniform_pure_birth_tree, pure_kingman_tree, mean_kingman_tree,
contained_coalescent_tree, constrained_kingman_tree all read "None -> use
GLOBAL_RNG"), and the docstrings of birth_death_tree /
discrete_birth_death_tree say "otherwise GLOBAL_RNG is used", but both take
the default with ``kwargs.pop('rng', GLOBAL_RNG)`` and crash with
AttributeError on an explicit None.

What it takes: passing rng=None explicitly (as wrapper code that forwards an
optional generator does).
"""
from dendropy.simulate import treesim

t = treesim.birth_death_tree(1.0, 0.0, num_extant_tips=4, rng=None)  # AttributeError
assert len(t.leaf_nodes()) == 4
print("ok")
