"""
C18 clause violated: a gene tree simulated inside a species tree is well
formed / "exactly one leaf per taxon": gene copies of two different species
share one Taxon object, so the gene tree has duplicate taxa and fewer distinct
taxa than leaves.

Simulator: constrained_kingman_tree (any sampling strategy).

What it takes: a species tree (in a case-sensitive namespace) with two species
whose labels differ only in case, e.g. "a" and "A".  Gene taxa are made with
``gtaxa.require_taxon(label="%s_%02d" % (species_label, i))`` in a fresh,
case-INsensitive namespace, so "A_01" resolves to the already existing taxon
"a_01".  contained_coalescent_tree with create_contained_taxon_mapping does
not have the problem.
"""
import random
import dendropy
from dendropy.simulate import treesim

ns = dendropy.TaxonNamespace(is_case_sensitive=True)
sp = dendropy.Tree.get(
    data="((a:1,A:1):1,(C:0.5,D:0.5):1.5);", schema="newick",
    taxon_namespace=ns, case_sensitive_taxon_labels=True)
assert [t.label for t in sp.taxon_namespace] == ["a", "A", "C", "D"]
g, _ = treesim.constrained_kingman_tree(
    sp, rng=random.Random(1),
    gene_sampling_strategy="fixed_per_population", num_genes=2)
leaves = g.leaf_nodes()
assert len(leaves) == 8
taxa = set(nd.taxon for nd in leaves)
assert len(taxa) == 8, (
    "8 gene leaves, %d distinct taxa: %s"
    % (len(taxa), sorted(nd.taxon.label for nd in leaves)))
print("ok")
