"""
C18 clause violated: "a birth-death tree grown to N extant tips ... has all
extant tips at the same distance from the root".

What it takes: the ``tree=`` argument with an (ultrametric) tree of two or
more tips, death_rate > 0, and a generator state for which the process goes
completely extinct and is restarted (repeat_until_success, the default) AFTER
one of the supplied tips has already died in the failed attempt.  On restart
the supplied tips are made extant again and their children are dropped, but
their edge lengths keep whatever waiting time each had accumulated: tips that
died early in the failed attempt are shorter than tips that died late.  With
birth 1.0 / death 0.9 and four starting tips roughly a third of all seeds show
it (e.g. seeds 0, 4, 10, 11, 15, 17).
"""
import random
from dendropy.simulate import treesim


def spread(tree):
    d = [nd.distance_from_root() for nd in tree.leaf_node_iter()]
    return max(d) - min(d)


bad = []
for seed in range(40):
    rng = random.Random(seed)
    tree = treesim.birth_death_tree(1.0, 0.9, num_extant_tips=4, rng=rng)
    assert spread(tree) < 1e-9
    treesim.birth_death_tree(1.0, 0.9, num_extant_tips=8, tree=tree, rng=rng)
    assert len(tree.leaf_nodes()) == 8
    if spread(tree) > 1e-9:
        bad.append((seed, round(spread(tree), 4)))
assert not bad, "extant tips not equidistant from the root (seed, spread): %s" % bad
print("ok")
