"""
C11, clauses "every sequence in a character matrix ... every component of a
data set ... refers to the container's own namespace object, and every taxon
referenced ... is a member of that namespace, after ... migrations ... and
namespace unifications" -- here after a migration / unification that fails
half-way with TaxonNamespaceReconstructionError.

What it takes: a matrix over a CASE-SENSITIVE namespace with sequences for 'a'
and 'A' (plus any other), migrated into a case-insensitive namespace (directly,
or by DataSet.unify_taxon_namespaces(), or by DataSet.add() in attached mode).
The second of the two case variants maps onto the taxon the first one was moved
to, "Multiple sequences for taxon" is raised -- correctly refusing to drop a
sequence -- but the matrix is left half-way: `taxon_namespace` already is the
new namespace (only ImmutableTaxonNamespaceError rolls that back), some
sequences are keyed by the new taxa and the remaining ones by old taxa that are
not members of the new namespace.  In the data set case the data set is also
left with its namespace registry emptied/replaced and a component half-moved.
(The merging of case variants itself is known; the inconsistent state left
behind by the refused call is what is reported here.)
"""
import dendropy
from dendropy.utility import error


def build():
    ns = dendropy.TaxonNamespace(is_case_sensitive=True)
    cm = dendropy.DnaCharacterMatrix(taxon_namespace=ns)
    cm[ns.new_taxon("x")] = "AAAA"
    cm[ns.new_taxon("a")] = "ACGT"
    cm[ns.new_taxon("A")] = "TTTT"
    return cm


def outside(cm):
    return sorted(t.label for t in cm.poll_taxa() if t not in cm.taxon_namespace)


failures = []

cm = build()
try:
    cm.migrate_taxon_namespace(dendropy.TaxonNamespace())
except error.TaxonNamespaceReconstructionError:
    pass
else:
    raise SystemExit("expected the migration to be refused")
if outside(cm):
    failures.append("migrate_taxon_namespace: sequences for %s keyed by taxa outside matrix.taxon_namespace" % outside(cm))

cm = build()
tl = dendropy.TreeList.get(data="(a,b);", schema="newick")
ds = dendropy.DataSet([tl, cm])
try:
    ds.unify_taxon_namespaces()
except error.TaxonNamespaceReconstructionError:
    pass
else:
    raise SystemExit("expected the unification to be refused")
if outside(cm):
    failures.append("unify_taxon_namespaces: component matrix has sequences for %s keyed by taxa outside its namespace" % outside(cm))

for f in failures:
    print(f)
assert not failures
