"""
C11, clause "every sequence in a character matrix ... refers to ... a member of
that [the matrix's own] namespace, after any sequence of ... migrations" -- here
after a migration that is REFUSED half-way.

What it takes: a CharacterMatrix with at least two sequences, migrated
(CharacterMatrix.migrate_taxon_namespace, or DataSet.add() on a data set
attached to the namespace) into an IMMUTABLE namespace that knows the label of
an earlier sequence but not that of a later one.  ImmutableTaxonNamespaceError
is raised and `matrix.taxon_namespace` is put back to the original namespace,
but the sequences handled before the failure have already been re-keyed onto
the foreign namespace's taxa.  Result: a matrix over its original namespace
with a sequence whose taxon is not a member of that namespace -- and since
iteration / items() / values() / as_string() walk the namespace, that sequence
silently disappears from them although len() still counts it.
"""
import dendropy
from dendropy.utility import error

cm = dendropy.DnaCharacterMatrix.from_dict({"a": "ACGT", "b": "TTTT"})
original = cm.taxon_namespace
target = dendropy.TaxonNamespace(["a"])
target.is_mutable = False
try:
    cm.migrate_taxon_namespace(target)
except error.ImmutableTaxonNamespaceError:
    pass
else:
    raise SystemExit("expected the migration to be refused")

assert cm.taxon_namespace is original          # the matrix says: not moved after all
outside = [t.label for t in cm.poll_taxa() if t not in cm.taxon_namespace]
print("len(cm) =", len(cm), " sequences reachable by iteration:", [t.label for t in cm])
print("sequence taxa that are not members of the matrix's namespace:", outside)
assert not outside, "sequence keyed by a taxon of the foreign namespace: %s" % outside
assert len(list(cm)) == len(cm)
