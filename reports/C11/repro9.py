"""
C11, clause "trees that are removed from a collection keep a consistent
namespace of their own" (and, for two lists over one namespace, "every taxon
referenced by their nodes ... is a member of that namespace").

What it takes: remove a tree from a list (pop / remove / del / clear / being
replaced by item assignment) and afterwards call purge_taxon_namespace() on the
list -- or have two TreeLists (or a TreeList and a CharacterMatrix) over one
shared namespace and purge one of them.  purge_taxon_namespace() polls only the
members of the object it is called on and removes every other taxon from the
shared namespace, so the removed tree / the other collection now refers to taxa
that are no longer members of the namespace it refers to.  No error is raised.
Lowest in the ranking because purge is an explicit destructive request; it is
listed because the clause about removed trees is stated without exceptions.
"""
import dendropy


def outside(tree):
    return sorted(nd.taxon.label for nd in tree if nd.taxon is not None and nd.taxon not in tree.taxon_namespace)


failures = []

tl = dendropy.TreeList.get(data="(a,b);(c,d);", schema="newick")
removed = tl.pop()
assert removed.taxon_namespace is tl.taxon_namespace and not outside(removed)
tl.purge_taxon_namespace()
if outside(removed):
    failures.append("removed tree refers to taxa %s that are no longer in its namespace" % outside(removed))

ns = dendropy.TaxonNamespace()
one = dendropy.TreeList.get(data="(a,b);", schema="newick", taxon_namespace=ns)
two = dendropy.TreeList.get(data="(c,d);", schema="newick", taxon_namespace=ns)
one.purge_taxon_namespace()
if outside(two[0]):
    failures.append("second list over the same namespace: tree refers to taxa %s that are no longer members" % outside(two[0]))

for f in failures:
    print(f)
assert not failures
