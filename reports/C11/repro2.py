"""
C11, clause "when members are ... read into a shared namespace, items with
equal labels end up on one and the same taxon and items with different labels
on different taxa, so no taxon is silently dropped, merged or duplicated"
(reads from further sources, case-variant label sets).

What it takes: a TreeList (or the tree lists of a DataSet attached to such a
namespace) over a CASE-SENSITIVE namespace that already holds the two distinct taxa 'a' and 'A',
and a read of a NeXML source whose OTUs are labelled 'a' and 'A', with default
reader settings.  The NeXML reader matches the labels of the source against
the taxa already in the target namespace through a caseless dictionary of its
own instead of the namespace's lookup rule, so both OTUs are mapped onto the
single taxon 'A': the leaf that is 'a' in the source sits on taxon 'A' after
the read, and the tree has two leaves on one taxon.  No error is raised (the
Newick and NEXUS readers refuse the same combination with a ValueError, and
for a character matrix the NeXML reader stumbles over the second row with
"Character values vector for taxon ... already exists").
"""
import dendropy

# a NeXML source with the four OTUs a, b, c, A
src_ns = dendropy.TaxonNamespace(is_case_sensitive=True)
src = dendropy.TreeList.get(
        data="((a,b),(c,A));", schema="newick",
        taxon_namespace=src_ns, case_sensitive_taxon_labels=True)
assert [t.label for t in src_ns] == ["a", "b", "c", "A"]
nexml = src.as_string(schema="nexml")

ns = dendropy.TaxonNamespace(is_case_sensitive=True)
t_a = ns.new_taxon("a")
t_A = ns.new_taxon("A")
tl = dendropy.TreeList(taxon_namespace=ns)
tl.read(data=nexml, schema="nexml")

leaf_taxa = [nd.taxon for nd in tl[0].leaf_node_iter()]
leaf_labels = [t.label for t in leaf_taxa]
print("namespace:", [t.label for t in ns], " leaves of the tree read:", leaf_labels)
assert tl[0].taxon_namespace is ns
# in the source the leaves are a, b, c, A: four different labels, four taxa
assert len(set(leaf_taxa)) == 4, \
    "different labels ended up on one taxon: leaves are %s" % leaf_labels
assert sorted(leaf_labels) == ["A", "a", "b", "c"], leaf_labels
