"""
C11, clause "every tree in a ... TreeArray ... refers to the container's own
namespace object" after a (failed) migration; quantified over "all sequences of
container operations on TreeList, TreeArray ...".

What it takes: TreeArray.migrate_taxon_namespace(other_ns) (inherited public
method).  The call switches
`ta.taxon_namespace` to the new namespace FIRST and then fails with
NotImplementedError (TreeArray cannot re-index its splits); the switch is only
rolled back for ImmutableTaxonNamespaceError.  After the failed call the array
claims the foreign namespace although all its stored splits index the old one
(and its split distribution still refers to the old one), so every tree
restored from the array silently comes out with the wrong taxa.

Different route from the recorded TreeArray.update() problem: no second array
is involved.
"""
import dendropy

ns = dendropy.TaxonNamespace()
ta = dendropy.TreeArray(taxon_namespace=ns)
ta.read(data="((a,b),(c,d));((a,b),(c,d));", schema="newick")


before = ta.restore_tree(0)
assert before.taxon_namespace is ns

other = dendropy.TaxonNamespace(["a", "c", "b", "d"])   # same labels, other order
try:
    ta.migrate_taxon_namespace(other)
except NotImplementedError:
    pass   # the call failed ...

after = ta.restore_tree(0)
print("array namespace is the foreign one:", ta.taxon_namespace is other)
print("split distribution namespace is the foreign one:", ta.split_distribution.taxon_namespace is other)
print("tree 0 before:", before.as_string("newick").strip(), " after:", after.as_string("newick").strip())

# ... so the array must still be on its own namespace, consistently with its content
assert ta.taxon_namespace is ta.split_distribution.taxon_namespace, \
    "array and its split distribution refer to different namespaces"
assert after.taxon_namespace is ns, "failed migration left the array on the foreign namespace"
