"""
C11, clause "every tree in a tree list refers to the container's own namespace
object ... after any sequence of appends, inserts, item and slice assignments,
extensions, additions ...".

What it takes: two TreeLists over different namespaces and ONE ordinary call
that hands a tree that is a member of the first list to the second one as a
plain (non-TreeList) argument: append / insert / item assignment / slice
assignment with a plain list / extend or + with a plain list /
TreeList(<plain list>, taxon_namespace=...) / DataSet.new_tree_list(<plain list>)
in attached mode.  The receiving list migrates the *original* tree object to
its own namespace, but the tree is still a member of the first list, which is
left holding a tree that refers to a foreign namespace and whose taxa are not
members of the list's namespace.  No error is raised anywhere.

(This is not the known "slices share trees with the list" case: there both
lists are over the same namespace.  Here a plain append silently breaks an
unrelated, previously consistent list.)
"""
import dendropy


def problems(tl, name):
    out = []
    for i, t in enumerate(tl):
        if t.taxon_namespace is not tl.taxon_namespace:
            out.append("%s[%d] refers to a namespace that is not %s.taxon_namespace" % (name, i, name))
        strays = sorted(nd.taxon.label for nd in t if nd.taxon is not None and nd.taxon not in tl.taxon_namespace)
        if strays:
            out.append("%s[%d]: taxa %s are not members of %s.taxon_namespace" % (name, i, strays, name))
    return out


def fresh():
    first = dendropy.TreeList.get(data="((a,b),(c,d));((a,c),(b,d));", schema="newick")
    second = dendropy.TreeList.get(data="((a,b),(c,e));", schema="newick")
    assert not problems(first, "first") and not problems(second, "second")
    return first, second


failures = []

first, second = fresh()
second.append(first[0])
failures += ["append: " + p for p in problems(first, "first") + problems(second, "second")]

first, second = fresh()
second[0] = first[1]
failures += ["item assignment: " + p for p in problems(first, "first") + problems(second, "second")]

first, second = fresh()
second[0:1] = [first[0], first[1]]
failures += ["slice assignment (plain list): " + p for p in problems(first, "first") + problems(second, "second")]

first, second = fresh()
third = second + list(first)
failures += ["+ (plain list): " + p for p in problems(first, "first") + problems(third, "third")]

first, second = fresh()
ds = dendropy.DataSet()
ds.attach_taxon_namespace(dendropy.TaxonNamespace())
made = ds.new_tree_list(list(first))
failures += ["DataSet.new_tree_list(plain list), attached: " + p for p in problems(first, "first") + problems(made, "made")]

for f in failures:
    print(f)
assert not failures, "%d violations of C11 (see above)" % len(failures)
