"""
C11, clause "every tree in a tree list ... refers to the container's own
namespace object, and every taxon referenced by their nodes ... is a member of
that namespace, after any sequence of ... migrations" -- here after a migration
that FAILS half-way (failed call, then the list is used again).

What it takes: a TreeList with at least two trees, migrated (directly with
TreeList.migrate_taxon_namespace, or indirectly by DataSet.add() /
add_tree_list() on a data set attached to that namespace) into an IMMUTABLE
namespace that has all labels of the first tree but lacks a label of a later
tree.  ImmutableTaxonNamespaceError is raised and the list itself goes back to
its original namespace, but the trees before the failing one have already been
moved to the foreign namespace and stay there, and the failing tree keeps the
foreign namespace reference while its nodes still carry the old taxa.
(The tree-level version of this was repaired; the list-level loop was not.)
"""
import dendropy
from dendropy.utility import error


def problems(tl, name):
    out = []
    for i, t in enumerate(tl):
        if t.taxon_namespace is not tl.taxon_namespace:
            out.append("%s[%d] refers to a namespace that is not %s.taxon_namespace" % (name, i, name))
        for nd in t:
            if nd.taxon is not None and nd.taxon not in t.taxon_namespace:
                out.append("%s[%d]: taxon %r is not a member of the tree's namespace" % (name, i, nd.taxon.label))
    return out


failures = []

# direct
tl = dendropy.TreeList.get(data="(a,b);(a,c);", schema="newick")
original = tl.taxon_namespace
target = dendropy.TaxonNamespace(["a", "b"])
target.is_mutable = False
try:
    tl.migrate_taxon_namespace(target)
except error.ImmutableTaxonNamespaceError:
    pass
else:
    raise SystemExit("expected the migration to be refused")
assert tl.taxon_namespace is original   # the list says: not moved after all
failures += ["migrate_taxon_namespace: " + p for p in problems(tl, "tl")]

# through an attached data set
tl = dendropy.TreeList.get(data="(a,b);(a,c);", schema="newick")
ds = dendropy.DataSet()
ds.attach_taxon_namespace(target)
try:
    ds.add(tl)
except error.ImmutableTaxonNamespaceError:
    pass
assert tl not in ds.tree_lists
failures += ["DataSet.add (attached): " + p for p in problems(tl, "tl")]

for f in failures:
    print(f)
assert not failures, "list left inconsistent by a refused migration"
