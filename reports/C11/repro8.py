"""
C11, clause "no taxon is silently dropped" / every sequence of a matrix keeps a
taxon of its own after a reconstruction in another namespace -- clone route.

What it takes: a matrix with two sequences whose taxa are different Taxon
objects with EXACTLY equal labels (no case variants involved; reachable through
the documented "Taxon object as key is added as is" route of from_dict / the
constructor, the matrix counterpart of the 'add' import strategy), then a clone
into another namespace: SomeMatrix(matrix, taxon_namespace=other).  Both taxa
are mapped onto one taxon of the target namespace -- as the property asks --
but the clone silently keeps only ONE of the two sequences, whereas the
migration route (migrate_taxon_namespace) refuses the same situation with
TaxonNamespaceReconstructionError("Multiple sequences for taxon ...").
Related to the known clone/from_dict merging of case variants, but needs no
case-insensitive matching at all.
"""
import dendropy

x, y, z = dendropy.Taxon("a"), dendropy.Taxon("a"), dendropy.Taxon("b")
cm = dendropy.DnaCharacterMatrix.from_dict({x: "AAAA", y: "CCCC", z: "GGGG"})
assert len(cm) == 3 and all(t in cm.taxon_namespace for t in (x, y, z))

clone = dendropy.DnaCharacterMatrix(cm, taxon_namespace=dendropy.TaxonNamespace())
print("sequences in the original:", len(cm), " in the clone:", len(clone),
      [(t.label, str(clone[t])) for t in clone])
assert len(clone) == len(cm), \
    "clone into another namespace silently dropped %d sequence(s)" % (len(cm) - len(clone))
