"""
C11, clause "items with equal labels end up on one and the same taxon and items
with different labels on different taxa, so no taxon is silently dropped,
merged or duplicated" (migrations / additions with the default 'migrate'
strategy).

What it takes: a taxon WITHOUT a label (Taxon() / label None, which is the
default) on a tree or as a matrix key, and a target namespace with the default
case-insensitive matching that holds a taxon literally labelled "None" (or
"none", "NONE").  The case-insensitive lookup compares str(label).lower(), i.e.
the text "none", so the unlabelled taxon is mapped onto the taxon labelled
"None": two items with different labels end up on one taxon.  The same lookup
never finds an existing unlabelled taxon (its folded label is None, not
"none"), so two unlabelled taxa that arrive separately are NOT unified although
their labels are equal -- while a case-sensitive namespace unifies them.
No error is raised.
"""
import dendropy

failures = []

# (1) different labels, one taxon
tl = dendropy.TreeList.get(data="(None,x);", schema="newick")
ns = tl.taxon_namespace
tree = dendropy.Tree(taxon_namespace=dendropy.TaxonNamespace())
unlabelled = dendropy.Taxon()                      # label is None
tree.seed_node.new_child(taxon=unlabelled)
tree.seed_node.new_child(taxon=dendropy.Taxon("y"))
tree.update_taxon_namespace()
assert [nd.taxon.label for nd in tree.leaf_node_iter()] == [None, "y"]
tl.append(tree)
got = [nd.taxon.label for nd in tree.leaf_node_iter()]
print("leaves of the appended tree:", got, " namespace:", [t.label for t in ns])
if got != [None, "y"]:
    failures.append("unlabelled taxon was merged onto the taxon labelled %r" % got[0])

# (2) equal labels, two taxa (case-insensitive namespace only)
def unlabelled_tree():
    t = dendropy.Tree(taxon_namespace=dendropy.TaxonNamespace())
    t.seed_node.new_child(taxon=dendropy.Taxon())
    t.seed_node.new_child(taxon=dendropy.Taxon("y"))
    t.update_taxon_namespace()
    return t

for case_sensitive in (True, False):
    tl2 = dendropy.TreeList(taxon_namespace=dendropy.TaxonNamespace(is_case_sensitive=case_sensitive))
    tl2.append(unlabelled_tree())
    tl2.append(unlabelled_tree())
    n = len(tl2.taxon_namespace)
    print("case sensitive = %s: namespace after two appends: %s" % (case_sensitive, [t.label for t in tl2.taxon_namespace]))
    if n != 2:
        failures.append("case_sensitive=%s: equal (missing) labels ended up on %d taxa" % (case_sensitive, n - 1))

for f in failures:
    print(f)
assert not failures
