"""
C19 clause violated: "filling and packing make all sequences equally long".

fill()/pack() (and the column filter of export_character_indices) walk the rows
through ``for t in self`` which iterates the TAXON NAMESPACE, not the rows.  A row
whose taxon has meanwhile been removed from the namespace with the public
``TaxonNamespace.remove_taxon()`` is still a row of the matrix (``len(m)`` counts
it, ``taxon in m`` is True, ``m[taxon]`` returns it, ``sequence_size`` may report
its length) but it is skipped by fill()/pack(), and an export leaves it
unfiltered.
What it takes: remove a taxon from the namespace while the matrix still has a
row for it, then fill.
"""
import dendropy

tns = dendropy.TaxonNamespace(["a", "b", "c"])
D = dendropy.DnaCharacterMatrix
m = D.from_dict({"a": "AC", "b": "AAAA", "c": "CCCC"}, taxon_namespace=tns)
ta = tns.get_taxon("a")
tns.remove_taxon(ta)
assert len(m) == 3 and ta in m
size = m.fill(D.datatype_alphabet["-"])
lengths = sorted(len(m[t]) for t in m.poll_taxa())
print("fill() returned", size, "; row lengths:", lengths)
assert lengths == [4, 4, 4], "rows not equally long after fill(): %r" % lengths
