"""
C19 clauses touched: "adding, replacing, updating, extending ... change exactly
the rows their documentation names" (the documentation says the rows are added /
replaced as a SHALLOW COPY of the argument's sequence) and "concatenation of its
sequences".

A CharacterDataSequence carries, next to each value, a CharacterType and an
AnnotationSet (this is how NeXML column definitions and cell metadata are kept).
add_sequences / replace_sequences / update_sequences / extend_sequences /
extend_matrix / concatenate build the new row with
``character_sequence_type(other_row)`` or ``row.extend(other_row)``, which copy
the values only: every character type and every cell annotation is silently
replaced by None.  export_character_indices (deep copy) keeps them, so the
operations disagree with each other.
What it takes: cells with a character type or annotations (e.g. any matrix read
from NeXML).
"""
import dendropy

tns = dendropy.TaxonNamespace(["a", "b"])
D = dendropy.DnaCharacterMatrix
src = D(taxon_namespace=tns)
ct = src.new_character_type(label="col0")
for t in tns:
    src[t].append(D.datatype_alphabet["A"], character_type=ct)
    src[t].annotations_at(0).add_new("note", "checked")
assert src["a"].character_type_at(0) is ct and src["a"].has_annotations_at(0)

e = src.export_character_indices([0])
assert e["a"].character_type_at(0) is not None      # kept by export

failures = []
m = D(taxon_namespace=tns); m.add_sequences(src)
if m["a"].character_type_at(0) is None: failures.append("add_sequences drops character type")
if not m["a"].has_annotations_at(0): failures.append("add_sequences drops cell annotations")
m = D.from_dict({"a": "C", "b": "C"}, taxon_namespace=tns); m.update_sequences(src)
if m["a"].character_type_at(0) is None: failures.append("update_sequences drops character type")
m = D.from_dict({"a": "C", "b": "C"}, taxon_namespace=tns); m.extend_matrix(src)
if m["a"].character_type_at(1) is None: failures.append("extend_matrix drops character type")
c = D.concatenate([src, src])
if c["a"].character_type_at(0) is None or c["a"].character_type_at(1) is None:
    failures.append("concatenate drops character types")
print("\n".join(failures))
assert not failures, failures
