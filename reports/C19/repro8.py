"""
C19 clause touched: "exporting a character subset or index list gives exactly the
selected columns ... for all matrices of all data types" (and concatenation of
StandardCharacterMatrix objects).

export_character_indices() clones with ``self.__class__(self)``.  For every
DiscreteCharacterMatrix the constructor first clones and THEN runs
``self.state_alphabets = []; self._default_state_alphabet = None``, and
StandardCharacterMatrix installs a brand new "0123456789" alphabet.  So the
exported (and likewise the concatenated) Standard matrix holds the right cells,
but its state alphabet has nothing to do with them: the cells are not members of
``e.default_state_alphabet``, ``e.coerce_values("ab")`` raises KeyError, and a
matrix that came from NeXML cannot be written back (KeyError in the writer).
What it takes: a StandardCharacterMatrix with a non-default alphabet.
"""
import dendropy

tns = dendropy.TaxonNamespace(["a", "b"])
sa = dendropy.new_standard_state_alphabet("abc")
s = dendropy.StandardCharacterMatrix(taxon_namespace=tns, default_state_alphabet=sa)
s["a"] = s.coerce_values("abca")
s["b"] = s.coerce_values("bbcc")
e = s.export_character_indices([0, 2])
assert [str(e[t]) for t in tns] == ["ac", "bc"]          # cells are right
print("source alphabet  :", s.default_state_alphabet.symbols)
print("exported alphabet:", e.default_state_alphabet.symbols)
cell = e["a"][0]
assert any(cell is st for st in e.default_state_alphabet), \
        "cell %r of the exported matrix is not a state of the exported matrix's alphabet" % str(cell)
e["a"].extend(e.coerce_values("ab"))                      # KeyError: 'a'
