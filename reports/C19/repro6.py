"""
C19 clause violated: "Concatenating matrices gives, for every taxon, the
concatenation of its sequences in argument order ..." for "all lists of matrices"
- argument form.

CharacterMatrix.concatenate() subscripts its argument (``char_matrices[0]``)
before iterating it, so any non-subscriptable iterable of matrices (iterator,
generator expression, ``map`` object, dict ``values()`` view) raises
"TypeError: ... is not subscriptable", whereas a list or tuple of the same
matrices works.  What it takes: passing the matrices as an iterator.
"""
import dendropy

tns = dendropy.TaxonNamespace(["a", "b"])
D = dendropy.DnaCharacterMatrix
m1 = D.from_dict({"a": "AC", "b": "GT"}, taxon_namespace=tns)
m2 = D.from_dict({"a": "TT", "b": "GG"}, taxon_namespace=tns)
ref = {t.label: str(s) for t, s in D.concatenate([m1, m2]).items()}
assert ref == {"a": "ACTT", "b": "GTGG"}
by_name = {"x": m1, "y": m2}
c = D.concatenate(by_name.values())        # TypeError: 'dict_values' object is not subscriptable
assert {t.label: str(s) for t, s in c.items()} == ref
c = D.concatenate(x for x in (m1, m2))     # TypeError: 'generator' object is not subscriptable
assert {t.label: str(s) for t, s in c.items()} == ref
