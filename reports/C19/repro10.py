"""
C19 clause touched: "refuses matrices over a different namespace" / "updating ...
change exactly the rows their documentation names".

The binary row operations only compare the ``taxon_namespace`` REFERENCES of the
two matrices; they never look at the Taxon objects the argument's rows are keyed
by.  ``taxon_namespace`` is a plainly assignable public attribute (assignment
does not migrate the rows unless ``automigrate_taxon_namespace_on_assignment``
is switched on), so after ``m2.taxon_namespace = m1.taxon_namespace`` the
argument's rows are still keyed by the taxa of the OTHER namespace, the operation
is accepted, and the receiver ends up with rows keyed by foreign Taxon objects:
len() counts them, but they do not show up in iteration/items()/writing, and the
row the documentation says is replaced (taxon "a") is not replaced.
What it takes: re-pointing a matrix's taxon_namespace attribute (instead of
migrate_taxon_namespace) before using it as an argument.  (Borderline: arguably
a caller error, but nothing refuses or repairs it.)
"""
import dendropy

D = dendropy.DnaCharacterMatrix
tns1 = dendropy.TaxonNamespace(["a", "b"])
tns2 = dendropy.TaxonNamespace(["a", "b"])
m1 = D.from_dict({"a": "AC"}, taxon_namespace=tns1)
m2 = D.from_dict({"a": "GG", "b": "TT"}, taxon_namespace=tns2)
m2.taxon_namespace = tns1            # rows of m2 still keyed by tns2's taxa

try:
    m1.update_sequences(m2)
except ValueError:
    raise SystemExit(0)              # refused: fine
rows = {t.label: str(s) for t, s in m1.items()}
print("len(m1) =", len(m1), "; visible rows:", rows)
foreign = [t for t in m1.poll_taxa() if t not in tns1]
assert not foreign, "accepted a matrix whose rows are keyed by another namespace's taxa: " \
        "%d rows of the receiver are now keyed by foreign Taxon objects" % len(foreign)
