"""
C19 clause violated: "removing ... sequences change exactly the rows their
documentation names".

CharacterMatrix.__delitem__ is documented as "Removes sequence for ``key``, which
can be a index or a label of a Taxon instance in the current taxon namespace, or
a Taxon instance directly", exactly like __getitem__/__setitem__.  But it passes
the key to the underlying dict without resolving it, so ``del m["a"]`` and
``del m[0]`` raise KeyError although the row exists (and ``m["a"]``, ``m[0]``
work).  What it takes: deleting a row by label or by index.
"""
import dendropy

tns = dendropy.TaxonNamespace(["a", "b", "c"])
m = dendropy.DnaCharacterMatrix.from_dict(
        {"a": "ACGT", "b": "AAAA", "c": "CCCC"}, taxon_namespace=tns)
assert str(m["a"]) == "ACGT" and str(m[0]) == "ACGT"
del m[tns.get_taxon("c")]            # a Taxon works
assert len(m) == 2
del m["a"]                            # KeyError: 'a'
assert [t.label for t in m] == ["b"]
del m[1]                              # KeyError: 1 (taxon index of b)
assert len(m) == 0
