"""
C19 title clause violated: "row/column operations select exactly what they name".

DiscreteCharacterMatrix.taxon_state_sets_map(char_indices=...) documents
``char_indices`` as "an iterable of indexes of characters to include (by
column)".  The same iterable is walked once PER TAXON, so a one-shot iterable
(iterator, generator, ``map``/``filter`` object) is used up by the first taxon
and every later taxon gets an empty list - silently.
What it takes: char_indices given as an iterator rather than a list.
"""
import dendropy

tns = dendropy.TaxonNamespace(["a", "b", "c"])
m = dendropy.DnaCharacterMatrix.from_dict(
        {"a": "ACGT", "b": "AAAA", "c": "CCCC"}, taxon_namespace=tns)
ref = m.taxon_state_sets_map(char_indices=[0, 2])
got = m.taxon_state_sets_map(char_indices=iter([0, 2]))
print({t.label: v for t, v in got.items()})
assert got == ref, "iterator of column indices selected %r, list selected %r" % (
        {t.label: v for t, v in got.items()}, {t.label: v for t, v in ref.items()})
