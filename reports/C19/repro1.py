"""
C19 clause violated: "exporting a character subset or index list gives exactly
the selected columns in ascending order for every taxon".

What it takes: two taxa of the matrix share one sequence object.  The library
documents that a CharacterDataSequence assigned with ``m[taxon] = seq`` (or given
as a value to ``from_dict``) is stored "as-is", so ``m["b"] = m["a"]`` is the
documented way to get there.  export_character_indices()/export_character_subset()
deep-copy the matrix (the copy keeps the sharing) and then filter the cells of
``clone.values()`` row by row, so the shared sequence object is filtered TWICE,
the second time with the index set applied to the already-shortened row.

Expected for indices {1,3} of ACGT: "CT" for both a and b.  Observed: "T".
"""
import dendropy

tns = dendropy.TaxonNamespace(["a", "b", "c"])
m = dendropy.DnaCharacterMatrix.from_dict(
        {"a": "ACGT", "c": "CCCC"}, taxon_namespace=tns)
m["b"] = m["a"]          # stored as-is: taxa a and b now share one row object

before = {t.label: str(s) for t, s in m.items()}
e = m.export_character_indices([1, 3])
got = {t.label: str(s) for t, s in e.items()}
print("source  :", before)
print("exported:", got)
assert {t.label: str(s) for t, s in m.items()} == before, "source changed"
expected = {k: v[1] + v[3] for k, v in before.items()}
assert got == expected, "export of columns [1,3]: expected %r, got %r" % (expected, got)

# same through a named subset
m.new_character_subset(label="odd", character_indices=[1, 3])
got2 = {t.label: str(s) for t, s in m.export_character_subset("odd").items()}
assert got2 == expected, (expected, got2)
