"""
C19 clause violated: "Every such operation ... leaves its argument matrices
unchanged".

What it takes: receiver and argument share row objects.  Two public ways:
  (a) ``m2 = copy.copy(m1)`` - CharacterMatrix.__copy__ hands the SAME sequence
      objects to the copy (also ``m1.clone(0)``);
  (b) ``m2[t] = m1[t]`` - a CharacterDataSequence is stored as-is.
Then ``m2.extend_sequences(m1)`` / ``m2.extend_matrix(m1)`` / ``m2.fill(...)``
grow the rows in place, so the ARGUMENT m1 is changed as well.
"""
import copy
import dendropy

tns = dendropy.TaxonNamespace(["a", "b"])
D = dendropy.DnaCharacterMatrix

m1 = D.from_dict({"a": "ACGT", "b": "TTTT"}, taxon_namespace=tns)
before = {t.label: str(s) for t, s in m1.items()}
m2 = copy.copy(m1)
m2.extend_sequences(m1)
after = {t.label: str(s) for t, s in m1.items()}
print("(a) argument before:", before, "after:", after)
ok_a = (after == before)

m1 = D.from_dict({"a": "ACGT", "b": "TTTT"}, taxon_namespace=tns)
m2 = D(taxon_namespace=tns)
m2["a"] = m1["a"]
m2.extend_matrix(m1)
after = {t.label: str(s) for t, s in m1.items()}
print("(b) argument before:", before, "after:", after)
ok_b = (after == before)
assert ok_a and ok_b, "argument matrix changed by extend_* on a matrix sharing its rows"
