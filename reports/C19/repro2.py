"""
C19 clause violated: "extending ... sequences change exactly the rows their
documentation names" / "for every taxon the concatenation of its sequences"
(extend_sequences: "Each sequence associated with a Taxon in other_matrix that is
also in self will be appended to the sequence currently associated with that
Taxon in self").

What it takes: two taxa of the RECEIVER share one sequence object (documented
as-is storage: ``m["b"] = m["a"]``).  extend_sequences()/extend_matrix() then
append other's row for a AND other's row for b to the single shared object, so
both taxa end up with  own + other[a] + other[b]  instead of  own + other[x].
"""
import dendropy

tns = dendropy.TaxonNamespace(["a", "b", "c"])
D = dendropy.DnaCharacterMatrix
for opname in ("extend_sequences", "extend_matrix"):
    m = D.from_dict({"a": "ACGT", "c": "CCCC"}, taxon_namespace=tns)
    m["b"] = m["a"]      # a and b share one row object
    other = D.from_dict({"a": "TT", "b": "GG", "c": "AA"}, taxon_namespace=tns)
    getattr(m, opname)(other)
    got = {t.label: str(s) for t, s in m.items()}
    expected = {"a": "ACGTTT", "b": "ACGTGG", "c": "CCCCAA"}
    print(opname, got)
    assert got == expected, "%s: expected %r, got %r" % (opname, expected, got)
