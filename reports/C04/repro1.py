"""
C04 clause violated: "each distance is ... unchanged ... for unrooted trees, by
moving the seed node" (and "zero between a tree and any re-drawing of it").

What it takes: an UNROOTED tree whose seed node is a unifurcation (outdegree 1,
e.g. "((A,B,(C,D)));"), and Tree.reseed_at() on any internal node, all flags at
their defaults, on a tree that has not been through encode_bipartitions() or a
distance call yet (those splice the root unifurcation out).  reseed_at() turns the old seed node into a taxon-less *leaf*
(it had one child, that child becomes its parent) instead of removing it, so
the re-seeded tree carries a dangling edge ":2.0".  The edge keeps its length,
its bipartition (empty leaf set, split 0) collides with the seed edge's, and
the weighted Robinson-Foulds and Euclidean distances between the re-seeded
tree and an untouched copy of the same tree are 2.0 instead of 0.  (The
unweighted distance hides it because the phantom split 0 coincides with the
root split of an unrooted tree; on a ROOTED tree re-rooted the same way the
phantom split is counted as a false positive.)
"""
import warnings
warnings.simplefilter("ignore")
import dendropy
from dendropy.calculate import treecompare

tns = dendropy.TaxonNamespace(["A", "B", "C", "D"])
NEWICK = "[&U] ((A:1,B:1,(C:1,D:1):1):2);"
original = dendropy.Tree.get(data=NEWICK, schema="newick", taxon_namespace=tns)
moved = dendropy.Tree.get(data=NEWICK, schema="newick", taxon_namespace=tns)
third = dendropy.Tree.get(data="[&U] (A:1,C:1,(B:1,D:1):1);", schema="newick", taxon_namespace=tns)

# NB: no distance call on `moved` before the move -- encode_bipartitions() would
# splice the root unifurcation out and hide the problem.
before = treecompare.weighted_robinson_foulds_distance(
        dendropy.Tree.get(data=NEWICK, schema="newick", taxon_namespace=tns), third)
moved.reseed_at(moved.mrca(taxon_labels=["C", "D"]))       # move the seed node, nothing else
print("re-seeded tree:", moved.as_string("newick").strip())

sd = treecompare.symmetric_difference(original, moved)
wrf = treecompare.weighted_robinson_foulds_distance(original, moved)
euc = treecompare.euclidean_distance(original, moved)
after = treecompare.weighted_robinson_foulds_distance(moved, third)
print("d(original, re-seeded): sd=%s wrf=%s euclid=%s" % (sd, wrf, euc))
print("d(tree, third) before / after moving the seed: %s / %s" % (before, after))
assert sd == 0
assert wrf == 0.0, "weighted RF between a tree and the same tree with the seed moved is %r, not 0" % wrf
assert euc == 0.0
assert before == after
