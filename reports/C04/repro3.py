"""
C04 clauses violated: "weighted Robinson-Foulds and Euclidean distances equal
the L1 and L2 norms of the per-split edge-length differences", "zero between a
tree and any re-drawing of it", "unchanged by reordering children".

What it takes: UNROOTED trees with exactly two leaves, "(A:1,B:2);".  The
basal bifurcation cannot be collapsed (both children are leaves), so the two
edges carry the same bipartition A|B.  Tree.bipartition_edge_map keeps only
the edge visited last, i.e. the SECOND child's edge, and the other length is
ignored:
   d((A:1,B:2), (B:2,A:1)) = 1   (same tree, children swapped; should be 0)
   d((A:1,B:2), (A:5,B:2)) = 0   (the single edge is 3 vs 7 long; L1 = 4)
Rooted two-leaf trees are fine.
"""
import warnings
warnings.simplefilter("ignore")
import dendropy
from dendropy.calculate import treecompare

tns = dendropy.TaxonNamespace(["A", "B"])
def get(s):
    return dendropy.Tree.get(data=s, schema="newick", taxon_namespace=tns)
def d(s1, s2):
    return (treecompare.weighted_robinson_foulds_distance(get(s1), get(s2)),
            treecompare.euclidean_distance(get(s1), get(s2)))

same = d("[&U] (A:1,B:2);", "[&U] (B:2,A:1);")
diff = d("[&U] (A:1,B:2);", "[&U] (A:5,B:2);")
print("tree vs. itself with children swapped:", same)
print("single edge of length 3 vs. length 7  :", diff)
assert same == (0.0, 0.0), "reordering the two children of an unrooted two-leaf tree gives distance %r" % (same,)
assert diff == (4.0, 4.0), "expected L1 = L2 = 4 for the one shared split, got %r" % (diff,)
