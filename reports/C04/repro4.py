"""
C04 clause violated: "unchanged ... for unrooted trees, by moving the seed
node" (weak: uses Tree.reseed_at() outside its documented domain).

What it takes: Tree.reseed_at() called with a LEAF of an unrooted tree (the
docstring says "Takes an internal node", but nothing checks it, and
reroot_at_node() / to_outgroup_position() forward whatever they get).  With the
default suppress_unifurcations=True the leaf becomes a seed node that has both
a taxon and children; encode_bipartitions() builds an internal node's leaf set
from its children only, so taxon A silently disappears from every bipartition,
its pendant edge is lost and the internal edge is merged into B's:
   (A:1,B:1,(C:1,D:1):1)  --reseed_at(A)-->  (B:2,C:1,D:1)A
and the re-seeded tree is at symmetric difference 2, weighted RF 3.0 from an
untouched copy of itself.
"""
import warnings
warnings.simplefilter("ignore")
import dendropy
from dendropy.calculate import treecompare

tns = dendropy.TaxonNamespace(["A", "B", "C", "D"])
NEWICK = "[&U] (A:1,B:1,(C:1,D:1):1);"
original = dendropy.Tree.get(data=NEWICK, schema="newick", taxon_namespace=tns)
moved = dendropy.Tree.get(data=NEWICK, schema="newick", taxon_namespace=tns)
moved.reseed_at(moved.find_node_with_taxon_label("A"))
print("re-seeded at leaf A:", moved.as_string("newick").strip())
sd = treecompare.symmetric_difference(original, moved)
wrf = treecompare.weighted_robinson_foulds_distance(original, moved)
print("sd=%s wrf=%s" % (sd, wrf))
assert sd == 0 and wrf == 0.0, "tree vs. the same tree re-seeded at a leaf: sd=%r wrf=%r" % (sd, wrf)
