"""
C04 clauses violated: "each distance is ... unchanged by reordering children",
"symmetric ... in whether it is defined" taken across re-drawings, and "zero
between a tree and any re-drawing of it".

What it takes: an UNROOTED tree drawn with a basal bifurcation (two children at
the seed node), exactly one of the two basal edges has no length, the weighted
Robinson-Foulds or Euclidean distance.

The two basal edges of an unrooted tree are one edge.  encode_bipartitions()
merges them through Tree.collapse_basal_bifurcation(), which does
    try: to_keep.edge.length += to_del_edge.length
    except: pass
so a missing length poisons the sum only when it sits on the edge that is
*kept*; which edge is kept depends on the order of the two children (the second
child is deleted if it is internal).  Hence
  (a) "((A,B):2,(C,D))"  -> merged edge 2.0, distance defined,
      "((C,D),(A,B):2)"  -> merged edge None, distance refused (ValueError),
      although the second is the first with the two children swapped;
  (b) when the edge without a length is a unifurcation, "((A:3),(B:2,C:1):1)",
      the length 1 of the other basal edge is silently dropped (everywhere else
      a unifurcation without a length is spliced out as if its length were 0),
      so the tree is at distance 1, not 0, from its re-drawing "(A:4,B:2,C:1)".
"""
import warnings
warnings.simplefilter("ignore")
import dendropy
from dendropy.calculate import treecompare

tns = dendropy.TaxonNamespace(["A", "B", "C", "D"])
def get(s):
    return dendropy.Tree.get(data=s, schema="newick", taxon_namespace=tns)
def wrf(s1, s2):
    try:
        return treecompare.weighted_robinson_foulds_distance(get(s1), get(s2))
    except ValueError as e:
        return "refused"

failures = []
other = "[&U] ((A:1,C:1):1,B:1,D:1);"
t = "[&U] ((A:1,B:1):2,(C:1,D:1));"
t_swapped = "[&U] ((C:1,D:1),(A:1,B:1):2);"
r = [wrf(t, other), wrf(other, t), wrf(t_swapped, other), wrf(other, t_swapped), wrf(t, t_swapped)]
print("(a) d(t,x)=%s d(x,t)=%s d(t',x)=%s d(x,t')=%s d(t,t')=%s   [t' = t with the two basal children swapped]" % tuple(r))
if not (r[0] == r[2] and r[1] == r[3]):
    failures.append("(a) swapping the two children of the seed node changes the weighted RF distance from %r to %r" % (r[0], r[2]))

tns = dendropy.TaxonNamespace(["A", "B", "C"])
d1 = wrf("[&U] ((A:3),(B:2,C:1):1);", "[&U] (A:4,B:2,C:1);")
d2 = wrf("[&U] (B:2,(A:3),C:1);", "[&U] (A:3,B:2,C:1);")     # same unifurcation, not at the base: treated as length 0
print("(b) d(((A:3),(B:2,C:1):1), (A:4,B:2,C:1)) = %s ; non-basal unifurcation without length: %s" % (d1, d2))
if d1 not in (0.0, "refused"):
    failures.append("(b) basal edge length dropped: distance to the re-drawing is %r (neither 0 nor refused)" % d1)

assert not failures, "\n".join(failures)
