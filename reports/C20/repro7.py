"""
C20 clause violated: bad data must be reported as a parse error; "never fails
with an internal error ... raised from inside the library" (here the
interpreter's ValueError "Exceeds the limit (4300 digits) for integer string
conversion").

What it takes: a run of more than 4300 ASCII digits where a number is
expected -- 'DIMENSIONS NTAX=<digits>' / 'NCHAR=<digits>' / a CHARSET position
in NEXUS, or the header line of a PHYLIP file.  The readers check
token.isdigit() (or \d+) and then call int(token) unguarded; on Python >= 3.11
int() refuses such strings with a plain ValueError, which escapes from
nexusreader._parse_dimensions_statement / _parse_positions and
phylipreader._read.  (An over-long Newick edge length with
edge_length_type=int is reported properly as "Invalid edge length".)
"""
import dendropy
from dendropy.utility.error import DataParseError

BIG = "1" * 5000
cases = {
    "nexus NTAX": lambda: dendropy.DataSet.get(schema="nexus",
        data="#NEXUS\nBEGIN TAXA; DIMENSIONS NTAX=%s; TAXLABELS a b; END;\n" % BIG),
    "nexus NCHAR": lambda: dendropy.DataSet.get(schema="nexus",
        data="#NEXUS\nBEGIN DATA; DIMENSIONS NTAX=2 NCHAR=%s; FORMAT DATATYPE=DNA; MATRIX a ACGT b ACGT; END;\n" % BIG),
    "nexus CHARSET": lambda: dendropy.DataSet.get(schema="nexus",
        data="#NEXUS\nBEGIN DATA; DIMENSIONS NTAX=2 NCHAR=4; FORMAT DATATYPE=DNA; MATRIX a ACGT b ACGT; END;\nBEGIN SETS; CHARSET x = %s; END;\n" % BIG),
    "phylip header": lambda: dendropy.DnaCharacterMatrix.get(schema="phylip",
        data="2 %s\na ACGT\nb ACGT\n" % BIG),
}
bad = []
for name, fn in cases.items():
    try:
        fn()
        print(name, "-> accepted")
    except DataParseError as e:
        print(name, "-> parse error (fine)")
    except Exception as e:
        print(name, "->", type(e).__name__, str(e)[:70])
        bad.append("%s: %s" % (name, type(e).__name__))
assert not bad, "over-long digit strings escape as internal errors instead of DataParseError: %s" % bad
