"""
C20 clause violated: "never fails with an internal error such as an attribute
... error raised from inside the library".

What it takes: the NEXUS reader flag store_ignored_blocks=True and a DataSet
that is read into twice (DataSet.read), each document holding a block the
reader does not know (here 'BEGIN PAUP; ... END;').  The first read stores the
ignored blocks as the annotation 'ignored_nexus_blocks'; on the second read
NexusReader._read() finds that annotation and calls `a.extend(...)` on the
Annotation object (it means the annotation's value list):
    AttributeError: 'Annotation' object has no attribute 'extend'
The document itself is valid; the failure depends only on the history.
"""
import dendropy
from dendropy.utility.error import DataParseError

DOC = """#NEXUS
BEGIN TAXA; DIMENSIONS NTAX=3; TAXLABELS a b c; END;
BEGIN PAUP; set autoclose=yes; END;
BEGIN TREES; TREE t = (a,b,c); END;
"""
ds = dendropy.DataSet()
ds.read(data=DOC, schema="nexus", store_ignored_blocks=True)
print("first read ok:", ds.annotations.find(name="ignored_nexus_blocks").value)
try:
    ds.read(data=DOC, schema="nexus", store_ignored_blocks=True)
    print("second read ok")
except DataParseError as e:
    print("second read parse error (fine)", e)
except AttributeError as e:
    raise AssertionError("second read with store_ignored_blocks=True failed with AttributeError: %s" % e)
