"""
C20 clause violated: "A reader never hangs" (super-linear blow-up: a few
kilobytes of comment keep the Newick / NEXUS reader busy for minutes).

What it takes: a metadata comment ('[&...]', parsed by default because
extract_comment_metadata=True) that consists of 'name={' openings with commas
but no closing brace, e.g. a BEAST-style annotation list whose '}' were lost:
    [&a={,a={,a={, ... ]
nexusprocessing.FIGTREE_COMMENT_FIELD_PATTERN
    (.+?)=({.+?,.+?}|.+?)(,|$)
backtracks cubically on such text: 500 repetitions (2 kB) take about a
second, 1500 (6 kB) about half a minute, 4000 (16 kB) about ten minutes.
The script allows 20 s for a 8 kB comment in front of '(a,b);'.
"""
import signal, time
import dendropy
from dendropy.utility.error import DataParseError

class Hang(Exception):
    pass
def on_alarm(signum, frame):
    raise Hang()
signal.signal(signal.SIGALRM, on_alarm)

def timed(n, limit):
    doc = "[&" + "a={," * n + "](a,b);"
    signal.alarm(limit)
    t0 = time.time()
    try:
        try:
            dendropy.Tree.get(data=doc, schema="newick")
        except DataParseError:
            pass
    finally:
        signal.alarm(0)
    return len(doc), time.time() - t0

for n in (125, 250, 500):
    print("comment of %5d bytes: %.2f s" % timed(n, 60))
try:
    print("comment of %5d bytes: %.2f s" % timed(2000, 20))
except Hang:
    raise AssertionError("Newick reader still busy after 20 s on an 8 kB metadata comment (cubic regex backtracking)")
