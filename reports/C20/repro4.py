"""
C20 clauses violated: "every prefix of a valid document ... returns
well-formed trees ... or raises a parse error" and "never fails with an
internal error such as an attribute ... error raised from inside the library".

What it takes (a history of two reads sharing one TaxonNamespace):
 1. a NEXUS file without a TAXA block whose write was interrupted inside the
    TRANSLATE statement, right after a ',' (or after a translation token).
    _parse_translate_statement() uses next_token() (not require_next_token()),
    gets None for token and label at the end of the stream and calls
    taxon_namespace.require_taxon(label=None): the read RETURNS NORMALLY, and
    the caller's TaxonNamespace now holds a Taxon whose label is None
    (registered under the translate token 'None').
 2. any later Newick/NEXUS read into the same namespace (the usual way of
    reading a directory of tree files) dies with
        AttributeError: 'NoneType' object has no attribute 'lower'
    raised from dendropy/utility/container.py while the symbol mapper indexes
    the namespace's labels -- for a perfectly valid document.
"""
import dendropy
from dendropy.utility.error import DataParseError

VALID = """#NEXUS
BEGIN TREES;
  TRANSLATE
    1 alpha,
    2 beta,
    3 gamma;
  TREE t1 = (1,(2,3));
END;
"""
cut = VALID.index("2 beta,") + len("2 beta,")
prefix = VALID[:cut]            # '... TRANSLATE 1 alpha, 2 beta,'

tns = dendropy.TaxonNamespace()
try:
    trees = dendropy.TreeList.get(data=prefix, schema="nexus", taxon_namespace=tns)
    print("read of the truncated file returned %d trees; namespace labels: %r" % (len(trees), [t.label for t in tns]))
except DataParseError as e:
    print("read of the truncated file raised a parse error (fine):", e)

problems = []
if any(t.label is None for t in tns):
    problems.append("truncated TRANSLATE statement was accepted and left a Taxon with label None in the namespace")
try:
    t2 = dendropy.Tree.get(data="(alpha,(beta,gamma));", schema="newick", taxon_namespace=tns)
    print("second (valid) read ok")
except DataParseError as e:
    print("second read: parse error", e)
except Exception as e:
    problems.append("valid Newick read into the same namespace failed with %s: %s" % (type(e).__name__, e))
assert not problems, "; ".join(problems)
