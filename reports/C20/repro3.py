"""
C20 clause violated: "never returns ... a matrix whose numbers of rows or
columns contradict the dimensions the document declares" (columns != NCHAR),
for prefixes / local corruptions of a valid PHYLIP document.

What it takes: the PHYLIP reader with the flag ignore_invalid_chars=True and
a document whose last row is truncated (interrupted write) or in which a row
lost or gained a few characters.  PhylipReader._read() wraps the final
"sequence has N characters but M declared" check in
    if not self.ignore_invalid_chars:
so asking the reader to skip unrecognised *symbols* also switches off the
check of the declared *dimensions*: rows of 8 and 4 (or 9) characters are
returned for a header that says '2 8'.  No invalid character is involved.
With the default flags the same inputs raise a DataParseError.
"""
import dendropy
from dendropy.utility.error import DataParseError

VALID = "2 8\nA ACGTACGT\nB ACGTACGT\n"
cases = {
    "truncated in last row": VALID[:-5],                 # '...B ACGT'
    "one character inserted": VALID.replace("A ACGTACGT", "A ACGTTACGT"),
    "interleaved, second page cut": "2 8\nA ACGT\nB ACGT\n\nACGT\n",
}
bad = []
for name, doc in cases.items():
    kw = dict(interleaved=True) if name.startswith("interleaved") else {}
    # control: default flags -> parse error
    try:
        dendropy.DnaCharacterMatrix.get(data=doc, schema="phylip", **kw)
        print("default flags accepted", repr(doc))
    except DataParseError:
        pass
    try:
        m = dendropy.DnaCharacterMatrix.get(data=doc, schema="phylip", ignore_invalid_chars=True, **kw)
    except DataParseError as e:
        print(name, "-> parse error (fine)")
        continue
    lens = [len(m[t]) for t in m]
    print(name, "-> returned row lengths", lens, "declared NCHAR 8")
    if any(n != 8 for n in lens):
        bad.append((name, lens))
assert not bad, "PHYLIP reader (ignore_invalid_chars=True) returned rows contradicting the declared 8 columns: %s" % bad
