"""
C20 clause violated: "never fails with an internal error such as a ... type
... error raised from inside the library" -- as the after-effect of a
correctly reported parse error (failed call followed by another read on the
shared TaxonNamespace).

What it takes:
 1. a NEXUS document with a TAXA block and a locally corrupted TRANSLATE
    statement (one ',' deleted).  The reader reports it properly
    (NexusReaderError "Expecting ',' in TRANSLATE statement ...").  But the
    NexusTaxonSymbolMapper created inside _parse_translate_statement() has
    locked the caller's TaxonNamespace (is_mutable=False) and is only known
    to that frame: the 'finally' clause of _parse_trees_block() cannot release
    it, so the lock lives as long as the exception/traceback object does
    (e.g. the usual `errors.append(e)` of a batch import).
    The same happens on the NEXUS/Newick tree yielder
    (Tree.yield_from_files(..., schema="nexus/newick")) for any malformed
    Newick statement.
 2. while the error object is alive, the next read that has to add a taxon to
    that namespace -- here a valid FASTA file -- fails with
    ImmutableTaxonNamespaceError, a TypeError, instead of succeeding.
"""
import io
import dendropy
from dendropy.utility.error import DataParseError

NEXUS = """#NEXUS
BEGIN TAXA; DIMENSIONS NTAX=2; TAXLABELS a b; END;
BEGIN TREES;
  TRANSLATE 1 a 2 b;
  TREE t = (1,2);
END;
"""
problems = []

def scenario(name, failing_read):
    tns = dendropy.TaxonNamespace()
    errors = []
    try:
        failing_read(tns)
        print(name, ": corrupted document accepted?!")
    except DataParseError as e:
        print(name, ": first read reported:", e)
        errors.append(e)          # keep the report, as a batch job would
    if not tns.is_mutable:
        print(name, ": namespace left locked (is_mutable=False) after the failed read")
    try:
        m = dendropy.DnaCharacterMatrix.get(data=">c\nACGT\n", schema="fasta", taxon_namespace=tns)
        print(name, ": follow-up FASTA read ok,", len(m), "row")
    except DataParseError as e:
        print(name, ": follow-up read parse error", e)
    except Exception as e:
        problems.append("%s: valid FASTA read after a reported parse error failed with %s (%s): %s" % (
            name, type(e).__name__, ", ".join(c.__name__ for c in type(e).__mro__[1:-2]), e))

scenario("nexus TRANSLATE",
        lambda tns: dendropy.TreeList.get(data=NEXUS, schema="nexus", taxon_namespace=tns))
scenario("nexus/newick yielder",
        lambda tns: list(dendropy.Tree.yield_from_files([io.StringIO("(a,b));")], schema="nexus/newick", taxon_namespace=tns)))
assert not problems, "\n".join(problems)
