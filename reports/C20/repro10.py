"""
C20 clause violated: "A reader never hangs" (and never exhausts memory).

What it takes: not a property of the text but of the argument form -- the
source handed to the reader as a stream opened in BINARY mode
(file=open(path, "rb") or io.BytesIO), an easy slip.  The FASTA and PHYLIP
readers fail at once with a TypeError.  The Newick and NEXUS readers never
return: the tokenizer compares each character read with "" to detect the end
of the stream, a binary stream yields b"" there, b"" != "" for ever, and the
unquoted-token loop keeps appending b"" to its buffer (memory grows without
bound).  The content of the file is irrelevant ('(a,b);' here).
"""
import io, signal
import dendropy
from dendropy.utility.error import DataParseError

class Hang(Exception):
    pass
def on_alarm(signum, frame):
    raise Hang()
signal.signal(signal.SIGALRM, on_alarm)

hung = []
for schema, doc in (("newick", b"(a,b);"), ("nexus", b"#NEXUS\nBEGIN TREES; TREE t = (a,b); END;\n")):
    signal.alarm(5)
    try:
        try:
            dendropy.TreeList.get(file=io.BytesIO(doc), schema=schema)
            print(schema, "-> returned")
        except Hang:
            print(schema, "-> still running after 5 s")
            hung.append(schema)
        except Exception as e:
            print(schema, "->", type(e).__name__, e)
    finally:
        signal.alarm(0)
assert not hung, "readers hang on a binary-mode stream: %s" % hung
