"""
C20 clause violated: "A reader never hangs".

What it takes: a NEXUS document with a SETS block in which one CHARSET range
has a very large end position (a few digits inserted into an otherwise valid
'CHARSET x = 1-4;').  NexusReader._parse_positions() expands the range with
    for q in range(start, end+1, step): if q <= max_positions: ...
i.e. it iterates over the number written in the file instead of over the
matrix width (NCHAR=4 here), so the running time is proportional to the value
of the number, not to the size of the document: 'CHARSET x = 1-4000000000;'
keeps the reader busy for many minutes, a few more digits for ever.  (The same
statement with a position beyond NCHAR is supposed to be a parse error:
"Specified position 5, but maximum position is 4".)

The script gives the reader 10 seconds for a 230-byte document.
"""
import signal
import dendropy
from dendropy.utility.error import DataParseError

DOC = """#NEXUS
BEGIN TAXA; DIMENSIONS NTAX=3; TAXLABELS a b c; END;
BEGIN CHARACTERS; DIMENSIONS NCHAR=4; FORMAT DATATYPE=DNA; MATRIX
a ACGT
b ACGT
c ACGT
; END;
BEGIN SETS; CHARSET x = 1-%s; END;
"""

class Hang(Exception):
    pass

def on_alarm(signum, frame):
    raise Hang()

def read(doc):
    signal.signal(signal.SIGALRM, on_alarm)
    signal.alarm(10)
    try:
        try:
            ds = dendropy.DataSet.get(data=doc, schema="nexus")
            return "returned"
        except DataParseError as e:
            return "parse error: %s" % e
    finally:
        signal.alarm(0)

# control: a small out-of-range position is reported as a parse error at once
print("1-5          ->", read(DOC % "5"))
try:
    outcome = read(DOC % "4000000000")
except Hang:
    raise AssertionError("NEXUS reader still busy after 10 s on 'CHARSET x = 1-4000000000;' (NCHAR=4): C20 'never hangs'")
print("1-4000000000 ->", outcome)
