"""
C20 clause violated: "never fails with an internal error such as an attribute
... error raised from inside the library".

What it takes: the FASTA reader with data_type="continuous" (listed as a
supported data type in FastaReader's documentation; the PHYLIP and NEXUS
readers do read continuous matrices).  FastaReader._read() unconditionally
dereferences char_matrix.default_state_alphabet, which a
ContinuousCharacterMatrix does not have, so EVERY input -- valid, corrupted or
empty -- ends in
    AttributeError: 'ContinuousCharacterMatrix' object has no attribute 'default_state_alphabet'
"""
import dendropy
from dendropy.utility.error import DataParseError

bad = []
for doc in (">a\n0.1 0.2\n>b\n1.5 2\n", ">a\n0.1 0.2\n>b\n1.5", ""):
    for how, fn in (
            ("ContinuousCharacterMatrix.get", lambda: dendropy.ContinuousCharacterMatrix.get(data=doc, schema="fasta")),
            ("DataSet.get(data_type='continuous')", lambda: dendropy.DataSet.get(data=doc, schema="fasta", data_type="continuous")),
            ):
        try:
            fn()
            print(how, repr(doc), "-> returned")
        except (DataParseError, ValueError) as e:
            print(how, repr(doc), "->", type(e).__name__, "(fine)")
        except Exception as e:
            print(how, repr(doc), "->", type(e).__name__, e)
            bad.append(type(e).__name__)
assert not bad, "FASTA reader, continuous data: internal errors %s" % bad
