"""
C20 clause violated: "never returns ... a matrix whose numbers of rows or
columns contradict the dimensions the document declares" (rows > NTAX).

What it takes: a NEXUS document whose TAXA block defines three taxa and whose
CHARACTERS block says 'DIMENSIONS NTAX=2 NCHAR=4' but carries three rows (one
replaced digit in a valid document, or one inserted row).  The row-label
look-up (_get_taxon) only refuses labels that are NOT already in the taxon
namespace once NTAX taxa exist; labels that are known from the TAXA block are
accepted without counting rows, so a 3-row matrix is returned for a block
that declares NTAX=2.  Without the TAXA block the same matrix is refused
("Cannot add taxon with label 'c': Declared number of taxa (2) already
defined").
"""
import dendropy
from dendropy.utility.error import DataParseError

DOC = """#NEXUS
BEGIN TAXA; DIMENSIONS NTAX=3; TAXLABELS a b c; END;
BEGIN CHARACTERS;
  DIMENSIONS NTAX=2 NCHAR=4;
  FORMAT DATATYPE=DNA;
  MATRIX
    a ACGT
    b ACGT
    c ACGT
  ;
END;
"""
try:
    m = dendropy.DnaCharacterMatrix.get(data=DOC, schema="nexus")
except DataParseError as e:
    print("parse error (fine):", e)
else:
    print("rows returned:", len(m), "declared NTAX: 2")
    assert len(m) <= 2, "matrix with %d rows returned for a CHARACTERS block declaring NTAX=2" % len(m)
