"""
C13 clause violated: "an incremental read into an existing list ... delivers
the same trees" as a whole tree list -- after a failed call followed by a
retry.

What it takes: TreeList.read on a source whose third tree statement is
malformed (here: truncated).  The call raises, but the two trees parsed before
the error AND the half-built third tree (a,d) have already been appended to
the list.  Reading the corrected text into the same list afterwards leaves a
list of 6 trees, one of them garbage, where TreeList.get of the corrected text
gives 3.
"""
import dendropy

BAD = "(a,b,(c,d));(a,c,(b,d));(a,d,(b,c;"
GOOD = "(a,b,(c,d));(a,c,(b,d));(a,d,(b,c));"
tl = dendropy.TreeList()
try:
    tl.read(data=BAD, schema="newick")
except Exception as e:
    print("first read raises", type(e).__name__)
print("list after the failed read:", [t.as_string("newick").strip() for t in tl])
tl.read(data=GOOD, schema="newick")
whole = dendropy.TreeList.get(data=GOOD, schema="newick")
print("after the retry: %d trees; TreeList.get: %d trees" % (len(tl), len(whole)))
assert [t.as_string("newick") for t in tl] == [t.as_string("newick") for t in whole], \
    "a failed incremental read leaves trees (one of them half-built) in the list"
