"""
C13 clause violated: "for one source text and one set of options every route
delivers the same trees ... all reader options accepted by every route".

What it takes: the NEXUS reader option exclude_trees=True, which every NEXUS
route accepts.  TreeList.get / TreeList.read / DataSet.get honour it and
deliver no trees; Tree.yield_from_files and TreeArray.read accept the option
and then overwrite it (the iterator sets exclude_trees = False after the
reader is configured), so they deliver all trees.
"""
import io
import dendropy

SRC = """#NEXUS
BEGIN TREES;
  TREE a = [&U] (x:1,y:2,(z:3,w:4):5);
  TREE b = [&U] (x:1,z:2,(y:3,w:4):5);
END;
"""
n_list = len(dendropy.TreeList.get(data=SRC, schema="nexus", exclude_trees=True))
n_ds = sum(len(tl) for tl in dendropy.DataSet.get(data=SRC, schema="nexus", exclude_trees=True).tree_lists)
n_iter = len(list(dendropy.Tree.yield_from_files([io.StringIO(SRC)], "nexus", exclude_trees=True)))
ta = dendropy.TreeArray()
ta.read(data=SRC, schema="nexus", exclude_trees=True)
print("exclude_trees=True: list %d, data set %d, iterator %d, tree array %d" % (n_list, n_ds, n_iter, len(ta)))
assert n_list == n_ds == 0
assert n_iter == n_list, "iterator delivers %d trees, tree list %d" % (n_iter, n_list)
assert len(ta) == n_list
