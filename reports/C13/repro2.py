"""
C13 clause violated: "every route for reading trees - a whole tree list, a
single tree selected by collection and tree offset, an incremental read into
an existing list, the file iterator, a tree array, or a full data set -
delivers the same trees", and "a character matrix read on its own equals the
matrix found in the data set read from the same text".

What it takes: a NEXUS file with two TAXA blocks that carry TITLEs and
TREES / CHARACTERS blocks that refer to them with LINK (what Mesquite writes).
DataSet.get, Tree.yield_from_files and TreeArray.read all read the file.
TreeList.get, Tree.get, TreeList.read and DnaCharacterMatrix.get raise
MultipleBlockWithSameTitleError ("Multiple taxa blocks with title 'first'
defined"): these routes hand the reader a factory that returns the same
namespace for every TAXA block, the reader registers it twice and then looks
the LINK target up by the namespace's label.
"""
import io
import dendropy

SRC = """#NEXUS
BEGIN TAXA;
  TITLE first;
  DIMENSIONS NTAX=3;
  TAXLABELS a b c;
END;
BEGIN TAXA;
  TITLE second;
  DIMENSIONS NTAX=2;
  TAXLABELS x y;
END;
BEGIN CHARACTERS;
  TITLE m1;
  LINK TAXA = first;
  DIMENSIONS NCHAR=4;
  FORMAT DATATYPE=DNA;
  MATRIX
    a ACGT
    b ACGA
    c ACGG
  ;
END;
BEGIN TREES;
  TITLE t1;
  LINK TAXA = first;
  TREE one = (a,(b,c));
END;
BEGIN TREES;
  TITLE t2;
  LINK TAXA = second;
  TREE two = (x,y);
END;
"""

def sig(t):
    return (t.label, t.as_string("newick").strip())

ds = dendropy.DataSet.get(data=SRC, schema="nexus")
reference = [sig(t) for tl in ds.tree_lists for t in tl]
ref_matrix = [(t.label, str(ds.char_matrices[0][t])) for t in ds.char_matrices[0]]
print("data set :", reference, ref_matrix)
iterated = [sig(t) for t in dendropy.Tree.yield_from_files([io.StringIO(SRC)], "nexus")]
print("iterator :", iterated)
assert iterated == reference

failures = []
def attempt(name, fn):
    try:
        got = fn()
    except Exception as e:
        print("%-28s RAISES %s: %s" % (name, type(e).__name__, e))
        failures.append(name)
        return
    print("%-28s %r" % (name, got))
    return got

attempt("TreeList.get", lambda: [sig(t) for t in dendropy.TreeList.get(data=SRC, schema="nexus")])
attempt("Tree.get(collection_offset=1)", lambda: sig(dendropy.Tree.get(data=SRC, schema="nexus", collection_offset=1)))
def inc():
    tl = dendropy.TreeList()
    tl.read(data=SRC, schema="nexus")
    return [sig(t) for t in tl]
attempt("TreeList.read", inc)
def mat():
    m = dendropy.DnaCharacterMatrix.get(data=SRC, schema="nexus")
    return [(t.label, str(m[t])) for t in m]
attempt("DnaCharacterMatrix.get", mat)
assert not failures, "routes that cannot read a document the data set route reads: %s" % failures
