"""
C13 clause violated: "an incremental read into an existing list ... delivers
the same trees ... attached to the same taxa whenever a namespace is shared
across calls".

What it takes: a NeXML document in which two <otu> elements of one <otus>
block carry the same label (NeXML identifies otus by id, labels need not be
unique; the same happens with labels that differ in case only), read twice
with one TaxonNamespace (TreeList.get then TreeList.read, or any two routes).
The first read creates one Taxon per <otu>; the second read matches otus to
the existing taxa BY LABEL, so both otus land on the same Taxon and the second
copy of the tree has two leaves with one and the same taxon.
"""
import dendropy

NEXML = """<?xml version="1.0" encoding="UTF-8"?>
<nex:nexml version="0.9" xmlns="http://www.nexml.org/2009" xmlns:nex="http://www.nexml.org/2009"
  xmlns:xsi="http://www.w3.org/2001/XMLSchema-instance">
  <otus id="tax1">
    <otu id="t1" label="Homo sapiens"/>
    <otu id="t2" label="Homo sapiens"/>
    <otu id="t3" label="Pan"/>
  </otus>
  <trees id="trees1" otus="tax1">
    <tree id="tree1" label="one" xsi:type="nex:FloatTree">
      <node id="n0" root="true"/>
      <node id="n1" otu="t1"/>
      <node id="n2" otu="t2"/>
      <node id="n3" otu="t3"/>
      <node id="n4"/>
      <edge id="e1" source="n0" target="n4" length="1.0"/>
      <edge id="e2" source="n4" target="n1" length="1.0"/>
      <edge id="e3" source="n4" target="n2" length="1.0"/>
      <edge id="e4" source="n0" target="n3" length="1.0"/>
    </tree>
  </trees>
</nex:nexml>
"""
tl = dendropy.TreeList.get(data=NEXML, schema="nexml")
tl.read(data=NEXML, schema="nexml")
first, second = tl[0], tl[1]
taxa_first = [nd.taxon for nd in first.leaf_node_iter()]
taxa_second = [nd.taxon for nd in second.leaf_node_iter()]
print("distinct taxa on the leaves, first read :", len(set(map(id, taxa_first))))
print("distinct taxa on the leaves, second read:", len(set(map(id, taxa_second))))
assert len(set(map(id, taxa_first))) == 3
assert [id(t) for t in taxa_second] == [id(t) for t in taxa_first], \
    "the same text read again into the same list is attached to different taxa"
