"""
C13 clause violated: "all offsets": a tree array delivers the same trees as a
tree list for the same tree offset.

What it takes: a negative tree_offset.  TreeList.get(tree_offset=-1) (and
TreeList.read, Tree.get) treat it like a negative list index and deliver the
last tree; TreeArray.read(tree_offset=-1) compares the running count with the
offset and adds every tree of the source.
"""
import dendropy

SRC = "[&U] (a:1,b:2,(c:3,d:4):5); [&U] (a:1,c:2,(b:3,d:4):5); [&U] (a:1,d:2,(b:3,c:4):5);"
tl = dendropy.TreeList.get(data=SRC, schema="newick", tree_offset=-1)
ta = dendropy.TreeArray()
ta.read(data=SRC, schema="newick", tree_offset=-1)
print("tree_offset=-1: tree list %d tree(s), tree array %d tree(s)" % (len(tl), len(ta)))
assert len(tl) == 1
assert len(ta) == len(tl), "tree array holds %d trees, tree list %d" % (len(ta), len(tl))
