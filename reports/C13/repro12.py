"""
C13 clause violated (collection level only): the same TREES block read as a
whole tree list and read by collection offset carries the same comments and
annotations.

What it takes: a TREES block with a TITLE and with comments before the first
TREE statement.  TreeList.get(...) and DataSet.get(...).tree_lists[0] carry the
title as label, the plain comment in .comments and the metadata comment as an
annotation; TreeList.get(..., collection_offset=0) copies the annotation only:
label None, comments [].
"""
import dendropy

SRC = """#NEXUS
BEGIN TREES;
  TITLE posterior;
  [sampled with seed 42] [&burnin=10]
  TREE one = (a,(b,c));
END;
"""
def sig(tl):
    return (tl.label, list(tl.comments), [(a.name, a.value) for a in tl.annotations])
whole = sig(dendropy.TreeList.get(data=SRC, schema="nexus"))
in_dataset = sig(dendropy.DataSet.get(data=SRC, schema="nexus").tree_lists[0])
by_offset = sig(dendropy.TreeList.get(data=SRC, schema="nexus", collection_offset=0))
print("whole list :", whole)
print("data set   :", in_dataset)
print("by offset  :", by_offset)
assert whole == in_dataset
assert by_offset == whole, "the list read by collection offset lost its label and comments"
