"""
C13 clause violated: "every route for reading trees ... delivers the same trees
... with the same topology, labels ..." (silently different leaf labels).

What it takes: a NEXUS file with two titled TAXA blocks (Mesquite style), two
TREES blocks each linked to its own TAXA block, and tree statements that refer
to taxa by NUMBER (no TRANSLATE table).  The full-data-set route
(DataSet.get) resolves the numbers of each TREES block against the TAXA block
it is linked to.  Every route that funnels all taxa into ONE namespace -- the
one-tree-at-a-time iterator (Tree.yield_from_files), the tree array
(TreeArray.read) and DataSet.get(taxon_namespace=...) -- resolves the numbers
of the FIRST TREES block against the LAST TAXLABELS statement read, so tree
'one' comes back as (x,(y,z)) instead of (a,(b,c)).  No error is raised.
(The whole-list route cannot read this file at all, see repro2.py.)
"""
import io
import dendropy

SRC = """#NEXUS
BEGIN TAXA;
  TITLE first;
  DIMENSIONS NTAX=3;
  TAXLABELS a b c;
END;
BEGIN TAXA;
  TITLE second;
  DIMENSIONS NTAX=3;
  TAXLABELS x y z;
END;
BEGIN TREES;
  TITLE t1;
  LINK TAXA = first;
  TREE one = (1,(2,3));
END;
BEGIN TREES;
  TITLE t2;
  LINK TAXA = second;
  TREE two = (1,(2,3));
END;
"""

def leaves(tree):
    return [nd.taxon.label for nd in tree.leaf_node_iter()]

ds = dendropy.DataSet.get(data=SRC, schema="nexus")
from_dataset = [(t.label, leaves(t)) for tl in ds.tree_lists for t in tl]

iterated = [(t.label, leaves(t)) for t in dendropy.Tree.yield_from_files(
    files=[io.StringIO(SRC)], schema="nexus")]

ds2 = dendropy.DataSet.get(data=SRC, schema="nexus", taxon_namespace=dendropy.TaxonNamespace())
from_attached_dataset = [(t.label, leaves(t)) for tl in ds2.tree_lists for t in tl]

print("data set                 :", from_dataset)
print("iterator                 :", iterated)
print("data set, one namespace  :", from_attached_dataset)
assert from_dataset == [("one", ["a", "b", "c"]), ("two", ["x", "y", "z"])]
assert iterated == from_dataset, "iterator route delivers different leaf labels than the data set route"
assert from_attached_dataset == from_dataset
