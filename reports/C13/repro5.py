"""
C13 clause violated: "every route for reading trees ... or a full data set -
delivers the same trees".

What it takes: a NEXUS file with CHARACTERS, SETS and TREES blocks in which a
CHARSET statement carries the optional format specifier allowed by the NEXUS
standard, 'CHARSET name (STANDARD) = 1-3;' (or '(VECTOR)').  TreeList.get,
Tree.get, TreeList.read, the iterator and TreeArray.read skip the SETS block
and deliver the tree; DataSet.get (and the matrix read on its own) raise
NexusReaderError 'Expecting "=" after character set name'.  The same happens
with a TAXPARTITION/CHARPARTITION whose subset is called 'title' or 'link'.
"""
import io
import dendropy

SRC = """#NEXUS
BEGIN TAXA;
  DIMENSIONS NTAX=3;
  TAXLABELS a b c;
END;
BEGIN CHARACTERS;
  DIMENSIONS NCHAR=6;
  FORMAT DATATYPE=DNA;
  MATRIX
    a ACGTAC
    b ACGAAC
    c ACGGAC
  ;
END;
BEGIN SETS;
  CHARSET first (STANDARD) = 1-3;
END;
BEGIN TREES;
  TREE one = (a:1,(b:2,c:3):4);
END;
"""
whole = [t.as_string("newick").strip() for t in dendropy.TreeList.get(data=SRC, schema="nexus")]
iterated = [t.as_string("newick").strip() for t in dendropy.Tree.yield_from_files([io.StringIO(SRC)], "nexus")]
print("whole list:", whole)
print("iterator  :", iterated)
assert whole == iterated == ["(a:1.0,(b:2.0,c:3.0):4.0);"]
try:
    ds = dendropy.DataSet.get(data=SRC, schema="nexus")
except Exception as e:
    raise AssertionError("the data set route cannot read a document the tree routes read: %s: %s" % (type(e).__name__, e))
assert [t.as_string("newick").strip() for tl in ds.tree_lists for t in tl] == whole
