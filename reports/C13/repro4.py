"""
C13 clause violated: every route (whole tree list vs. full data set vs. matrix
on its own) reads the same source "attached to the same taxa whenever a
namespace is shared across calls"; the outcome depends on the ORDER in which
the routes are used.

What it takes: a NEXUS file WITHOUT a TAXA block (taxa are defined by the DATA
block, as PAUP/MrBayes files commonly do) read into a TaxonNamespace that
already holds at least NTAX taxa from an earlier call, one label of the file
being new to the namespace.  TreeList.get(taxon_namespace=ns) reads the trees.
DataSet.get(taxon_namespace=ns) and DnaCharacterMatrix.get(taxon_namespace=ns)
raise TooManyTaxaError, because the MATRIX parser counts the declared NTAX
against everything in the shared namespace (the TAXLABELS parser no longer
does).  Once the tree-list route has put the new taxon into the namespace, the
very same DataSet.get call succeeds.
"""
import dendropy

ALN = """#NEXUS
BEGIN DATA;
  DIMENSIONS NTAX=3 NCHAR=4;
  FORMAT DATATYPE=DNA;
  MATRIX
    a ACGT
    b ACGA
    e ACGG
  ;
END;
BEGIN TREES;
  TREE one = (a,(b,e));
END;
"""

def fresh_shared_namespace():
    ns = dendropy.TaxonNamespace()
    dendropy.TreeList.get(data="((a,b),(c,d));", schema="newick", taxon_namespace=ns)  # an earlier call
    return ns

reference = dendropy.DataSet.get(data=ALN, schema="nexus")   # own namespace: fine
ref_trees = [t.as_string("newick").strip() for t in reference.tree_lists[0]]
ref_rows = [(t.label, str(reference.char_matrices[0][t])) for t in reference.char_matrices[0]]

ns = fresh_shared_namespace()
trees = [t.as_string("newick").strip() for t in dendropy.TreeList.get(data=ALN, schema="nexus", taxon_namespace=ns)]
assert trees == ref_trees
print("tree-list route into the shared namespace:", trees)

errors = []
for name, fn in (
        ("DataSet.get", lambda ns: dendropy.DataSet.get(data=ALN, schema="nexus", taxon_namespace=ns)),
        ("DnaCharacterMatrix.get", lambda ns: dendropy.DnaCharacterMatrix.get(data=ALN, schema="nexus", taxon_namespace=ns)),
        ):
    ns = fresh_shared_namespace()
    try:
        fn(ns)
        print(name, "into the shared namespace: ok")
    except Exception as e:
        print(name, "into the shared namespace RAISES", type(e).__name__, e)
        errors.append(name)
    # ... but after the tree-list route has been used on the same namespace:
    dendropy.TreeList.get(data=ALN, schema="nexus", taxon_namespace=ns)
    fn(ns)
    print(name, "after TreeList.get on the same namespace: ok")
assert not errors, "routes that fail on a text the tree-list route reads into the same namespace: %s" % errors
