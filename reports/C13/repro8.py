"""
C13 clause violated: "all offsets, and all reader options accepted by every
route": a tree array delivers the same trees as a tree list for a given
collection offset.

What it takes: TreeArray.read(..., collection_offset=1) on a NEXUS source with
two TREES blocks.  The docstring of TreeArray.read documents collection_offset
(with an example 'collection_offset=2, tree_offset=100'), and
TreeList.get(collection_offset=1) delivers the second block only, but the tree
array route raises TypeError (unrecognized argument).  With
ignore_unrecognized_keyword_arguments=True the offset is silently dropped and
the array receives the trees of ALL collections.
"""
import dendropy

SRC = """#NEXUS
BEGIN TREES;
  TREE a = [&U] (x:1,y:2,(z:3,w:4):5);
  TREE b = [&U] (x:1,z:2,(y:3,w:4):5);
END;
BEGIN TREES;
  TREE c = [&U] (x:1,w:2,(y:3,z:4):5);
END;
"""
tl = dendropy.TreeList.get(data=SRC, schema="nexus", collection_offset=1)
print("TreeList.get(collection_offset=1):", [t.label for t in tl])
assert [t.label for t in tl] == ["c"]

ta = dendropy.TreeArray()
ta.read(data=SRC, schema="nexus", collection_offset=1, ignore_unrecognized_keyword_arguments=True)
print("TreeArray.read(collection_offset=1, ignore_unrecognized_keyword_arguments=True):", len(ta), "trees")
ta2 = dendropy.TreeArray()
try:
    ta2.read(data=SRC, schema="nexus", collection_offset=1)
except TypeError as e:
    print("TreeArray.read(collection_offset=1) RAISES TypeError:", e)
assert len(ta) == len(tl), "tree array holds %d trees, tree list %d" % (len(ta), len(tl))
assert len(ta2) == len(tl)
