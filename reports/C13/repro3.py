"""
C13 clause violated: every route delivers the same trees "attached to the same
taxa whenever a namespace is shared across calls"; incremental read into an
existing list; matrix on its own equals the matrix in the data set.

What it takes: an ordinary Mesquite-style NEXUS file with ONE TAXA block that
has a TITLE and TREES / CHARACTERS blocks with 'LINK TAXA = <title>', read
into a TaxonNamespace that already has a label -- given by the caller
(TaxonNamespace(label="primates")) or picked up from the TITLE of a file read
earlier into the same TreeList.  Tree.yield_from_files, TreeArray.read and
DataSet.get(taxon_namespace=ns) deliver the tree.  TreeList.get, Tree.get,
TreeList.read and DnaCharacterMatrix.get raise UndefinedBlockError ("Taxa
block with title 'Taxa' not found"), because the LINK target is looked up by
the label of the namespace, which these routes only set when it was None.
"""
import io
import dendropy

SRC = """#NEXUS
BEGIN TAXA;
  TITLE Taxa;
  DIMENSIONS NTAX=3;
  TAXLABELS a b c;
END;
BEGIN CHARACTERS;
  TITLE m1;
  LINK TAXA = Taxa;
  DIMENSIONS NCHAR=4;
  FORMAT DATATYPE=DNA;
  MATRIX
    a ACGT
    b ACGA
    c ACGG
  ;
END;
BEGIN TREES;
  TITLE t1;
  LINK TAXA = Taxa;
  TREE one = (a,(b,c));
END;
"""
OTHER = SRC.replace("Taxa;", "OtherTaxa;")   # same data, TAXA block titled differently

def sig(t):
    return (t.label, t.as_string("newick").strip())

failures = []
def attempt(name, fn):
    try:
        got = fn()
    except Exception as e:
        print("%-34s RAISES %s: %s" % (name, type(e).__name__, e))
        failures.append(name)
        return
    print("%-34s %r" % (name, got))

def ns():
    return dendropy.TaxonNamespace(label="primates")

attempt("iterator", lambda: [sig(t) for t in dendropy.Tree.yield_from_files([io.StringIO(SRC)], "nexus", taxon_namespace=ns())])
attempt("DataSet.get", lambda: [sig(t) for tl in dendropy.DataSet.get(data=SRC, schema="nexus", taxon_namespace=ns()).tree_lists for t in tl])
assert not failures
attempt("TreeList.get", lambda: [sig(t) for t in dendropy.TreeList.get(data=SRC, schema="nexus", taxon_namespace=ns())])
attempt("Tree.get", lambda: sig(dendropy.Tree.get(data=SRC, schema="nexus", taxon_namespace=ns())))
attempt("DnaCharacterMatrix.get", lambda: len(dendropy.DnaCharacterMatrix.get(data=SRC, schema="nexus", taxon_namespace=ns())))
def two_files():
    tl = dendropy.TreeList()          # unlabelled namespace
    tl.read(data=SRC, schema="nexus")     # namespace is now labelled 'Taxa'
    tl.read(data=OTHER, schema="nexus")   # LINK TAXA = OtherTaxa
    return [sig(t) for t in tl]
attempt("TreeList.read of a second file", two_files)
assert not failures, "routes that fail where the iterator and data set routes succeed: %s" % failures
