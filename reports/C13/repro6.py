"""
C13 clause violated: the one-tree-at-a-time file iterator delivers the same
trees as an incremental read into an existing list (and as the iterator run on
each source separately) when one namespace is shared.

What it takes: Tree.yield_from_files (or TreeArray.read_from_files) given TWO
NEXUS sources: the first has a TAXA block with DIMENSIONS NTAX, the second has
no TAXA block and a TRANSLATE table that introduces one more taxon.  The
iterator keeps one reader for all files, so the NTAX of the first file still
applies when the TRANSLATE table of the second file is parsed and the read
fails with UndefinedTaxonError.  TreeList.read(first); TreeList.read(second),
or two separate iterators on the same namespace, deliver both trees.
"""
import io
import dendropy

F1 = """#NEXUS
BEGIN TAXA;
  DIMENSIONS NTAX=3;
  TAXLABELS a b c;
END;
BEGIN TREES;
  TREE t1 = (a,(b,c));
END;
"""
F2 = """#NEXUS
BEGIN TREES;
  TRANSLATE 1 a, 2 b, 3 c, 4 d;
  TREE t2 = (1,(2,(3,4)));
END;
"""
tl = dendropy.TreeList()
tl.read(data=F1, schema="nexus")
tl.read(data=F2, schema="nexus")
incremental = [t.as_string("newick").strip() for t in tl]
print("incremental reads     :", incremental)

ns = dendropy.TaxonNamespace()
separately = []
for src in (F1, F2):
    for t in dendropy.Tree.yield_from_files([io.StringIO(src)], "nexus", taxon_namespace=ns):
        separately.append(t.as_string("newick").strip())
print("one iterator per file :", separately)
assert separately == incremental

ns = dendropy.TaxonNamespace()
try:
    together = [t.as_string("newick").strip() for t in dendropy.Tree.yield_from_files(
        [io.StringIO(F1), io.StringIO(F2)], "nexus", taxon_namespace=ns)]
except Exception as e:
    raise AssertionError("one iterator over both files fails: %s: %s" % (type(e).__name__, e))
assert together == incremental
