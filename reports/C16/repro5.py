"""
C16 clause violated: "ambiguity codes treated as state sets and gaps as missing
data" / "equals the minimum ... number of state changes", for a matrix over the
type's full symbol set.

What it takes: a state alphabet that gets one more fundamental state after it
was constructed (public StateAlphabet.new_fundamental_state(); lookup tables are
"auto-compiled"), and a column that has the missing-data symbol `?` (or a gap
scored as missing) next to the new state.  The member states of `?` are only
refreshed by compile_member_states_lookup_mappings(), which the auto-compile
does not call, so `?` (and a gap scored as missing) does not contain the new state: the
columns  ? 2 2 2  and  - 2 2 2  cost 1 each instead of 0 with gaps as missing
(total 2, expected 0), and  ? 2 2 2  still costs 1 with gaps as a new state
(total 2, expected 1).  Calling
compile_lookup_mappings() by hand changes the score of the very same tree and
matrix to 0.
"""
import dendropy
from dendropy.calculate import treescore

tns = dendropy.TaxonNamespace(["a", "b", "c", "d"])
sa = dendropy.StateAlphabet(fundamental_states="01", no_data_symbol="?", gap_symbol="-")
sa.new_fundamental_state("2")
chars = dendropy.StandardCharacterMatrix(taxon_namespace=tns, default_state_alphabet=sa)
for label, seq in {"a": "?-", "b": "22", "c": "22", "d": "22"}.items():
    chars[tns.get_taxon(label)] = [sa[c] for c in seq]
tree = dendropy.Tree.get(data="((a,b),(c,d));", schema="newick", taxon_namespace=tns)

got_missing = treescore.parsimony_score(tree, chars, gaps_as_missing=True)
got_newstate = treescore.parsimony_score(tree, chars, gaps_as_missing=False)
print("gaps as missing:", got_missing, "(expected 0);  gaps as new state:", got_newstate, "(expected 1)")
sa.compile_lookup_mappings()
print("after compile_lookup_mappings():",
      treescore.parsimony_score(tree, chars, gaps_as_missing=True),
      treescore.parsimony_score(tree, chars, gaps_as_missing=False))
assert got_missing == 0, got_missing       # '?' and '-' are both missing data
assert got_newstate == 1, got_newstate     # only the gap column needs a change
