"""
C16 clause violated: "It is a function of the tree and matrix passed in only:
scoring ... again ... gives the same value as scoring a fresh copy" -- here the
score depends on whether the MATRIX (its state alphabet) was scored once before.

What it takes: a custom StateAlphabet whose gap symbol is designated after
construction with the documented `gap_symbol` setter (+ compile_lookup_mappings),
and ONE earlier parsimony_score(..., gaps_as_missing=True) call made before the
gap was designated.  That earlier call caches, on the '-' StateIdentity, the
"indexes with gaps as missing" tuple computed when '-' was still an ordinary
state; nothing invalidates that cache, so after the gap is designated the gap
is still scored as a state of its own (score 1) whereas an identically
configured alphabet/matrix/tree that was never scored before gives 0.
"""
import dendropy
from dendropy.calculate import treescore

def build():
    tns = dendropy.TaxonNamespace(["a", "b", "c", "d"])
    sa = dendropy.StateAlphabet(fundamental_states="01-", no_data_symbol="?")
    chars = dendropy.StandardCharacterMatrix(taxon_namespace=tns, default_state_alphabet=sa)
    for label, seq in {"a": "-", "b": "1", "c": "1", "d": "1"}.items():
        chars[tns.get_taxon(label)] = [sa[c] for c in seq]
    tree = dendropy.Tree.get(data="((a,b),(c,d));", schema="newick", taxon_namespace=tns)
    return sa, chars, tree

# fresh objects: designate the gap, then score
sa, chars, tree = build()
sa.gap_symbol = "-"
sa.compile_lookup_mappings()
fresh = treescore.parsimony_score(tree, chars, gaps_as_missing=True)

# identical objects, but scored once before the gap was designated
sa, chars, tree = build()
earlier = treescore.parsimony_score(tree, chars, gaps_as_missing=True)   # '-' is an ordinary state here: 1
sa.gap_symbol = "-"
sa.compile_lookup_mappings()
again = treescore.parsimony_score(tree, chars, gaps_as_missing=True)

print("fresh:", fresh, " earlier call:", earlier, " after the same set-up, with history:", again)
assert fresh == 0, fresh
assert again == fresh, "score depends on an earlier scoring call: %r != %r" % (again, fresh)
