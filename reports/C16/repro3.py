"""
C16 clause violated: "equals the minimum ... of the number of state changes"
(the score is silently 0 for a matrix that needs 4 changes).

What it takes: the documented two-step route  data.taxon_state_sets_map(...) +
fitch_down_pass(...), with the column selection `char_indices` given as an
iterator/generator (it is documented as "an iterable of indexes").  The same
iterator object is re-used for every taxon, so only the first taxon gets its
state sets; all other taxa get an empty list, fitch_down_pass() zips the lists
and scores nothing.  A list or range with the same contents gives 4.
"""
import dendropy
from dendropy.model.parsimony import fitch_down_pass

tns = dendropy.TaxonNamespace(["a", "b", "c", "d"])
chars = dendropy.DnaCharacterMatrix.from_dict(
    {"a": "AAC", "b": "CAG", "c": "ACC", "d": "CCG"}, taxon_namespace=tns)
tree = dendropy.Tree.get(data="((a,b),(c,d));", schema="newick", taxon_namespace=tns)

with_list = fitch_down_pass(
    tree.postorder_node_iter(),
    taxon_state_sets_map=chars.taxon_state_sets_map(char_indices=[0, 2]))
tree2 = tree.clone(depth=1)
with_iter = fitch_down_pass(
    tree2.postorder_node_iter(),
    taxon_state_sets_map=chars.taxon_state_sets_map(char_indices=iter([0, 2])))
print("char_indices as list:", with_list, " as iterator:", with_iter)
assert with_list == 4
assert with_iter == with_list, (with_iter, with_list)
