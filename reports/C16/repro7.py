"""
C16 clause violated: "the per-character scores add up to the total" cannot be
obtained on a re-score / "scoring the same tree again ... gives the same value".

What it takes: scoring the same tree a second time through fitch_down_pass()
WITHOUT a taxon_state_sets_map (the documented way of re-using the state sets
already stored on the leaves) while asking for score_by_character_list.  The
length of the per-character list is taken from taxon_state_sets_map.values(),
so the call dies with AttributeError ('NoneType' has no attribute 'values');
without score_by_character_list the same call returns 5.
"""
import dendropy
from dendropy.model.parsimony import fitch_down_pass

tns = dendropy.TaxonNamespace(["a", "b", "c", "d"])
chars = dendropy.DnaCharacterMatrix.from_dict(
    {"a": "AAC", "b": "CAG", "c": "ACC", "d": "CCG"}, taxon_namespace=tns)
tree = dendropy.Tree.get(data="((a,b),(c,d));", schema="newick", taxon_namespace=tns)
first = fitch_down_pass(tree.postorder_node_iter(),
                        taxon_state_sets_map=chars.taxon_state_sets_map())
second = fitch_down_pass(tree.postorder_node_iter())
assert first == second == 5
per_char = []
third = fitch_down_pass(tree.postorder_node_iter(), score_by_character_list=per_char)  # AttributeError
assert third == 5 and sum(per_char) == 5
