"""
C16 clause violated (pedantic reading): "equals the minimum, over all
assignments of states to internal nodes, of the number of state changes ...
summed over characters with the given weights ... for all weight vectors".

What it takes: a negative weight.  The library returns weight * (minimum number
of changes); with a negative weight the minimum of the weighted sum over
assignments is weight * (MAXIMUM number of changes).  For column A A A C on
((a,b),(c,d)) and weight -1 the library gives -1, while an assignment that puts
a change on each of the 6 edges (e.g. G at the two inner nodes, T at the root)
has a weighted sum of -6.  (Zero and positive weights are handled correctly.)
"""
import itertools
import dendropy
from dendropy.calculate import treescore

tns = dendropy.TaxonNamespace(["a", "b", "c", "d"])
chars = dendropy.DnaCharacterMatrix.from_dict(
    {"a": "A", "b": "A", "c": "A", "d": "C"}, taxon_namespace=tns)
tree = dendropy.Tree.get(data="((a,b),(c,d));", schema="newick", taxon_namespace=tns)
w = [-1]
got = treescore.parsimony_score(tree, chars, weights=w)

# brute force: minimum over assignments to the three internal nodes
leaf = {"a": "A", "b": "A", "c": "A", "d": "C"}
best = None
for root, ab, cd in itertools.product("ACGT", repeat=3):
    changes = (root != ab) + (root != cd) + (ab != leaf["a"]) + (ab != leaf["b"]) \
              + (cd != leaf["c"]) + (cd != leaf["d"])
    val = w[0] * changes
    best = val if best is None else min(best, val)
print("library:", got, " minimum of the weighted change count over assignments:", best)
assert got == best, (got, best)
