"""
C16 clause violated: "ambiguity codes treated as state sets and gaps as missing
data when so requested" / "equals the minimum ... number of state changes".

What it takes: an aligned DNA matrix read from NEXUS in which one cell is an
uncertainty set that contains the gap symbol, e.g. `{-}` or `{A-}`, scored with
gaps_as_missing=True (the default).

With gaps requested as missing data, `-` is the set of all bases, so `{-}` and
`{A-}` ("gap, or A-or-gap") are also all bases and the column  {-} C C C  /
{A-} C C C needs 0 changes (a plain `-` in the same cell does score 0).
DendroPy instead drops the gap from the set and keeps the rest: `{A-}` becomes
{A} and `{-}` becomes the EMPTY state set, which can never intersect anything,
so one change is charged for each of these columns.
"""
import dendropy
from dendropy.calculate import treescore

NEXUS = """#NEXUS
begin taxa; dimensions ntax=4; taxlabels a b c d; end;
begin characters; dimensions nchar=3; format datatype=dna missing=? gap=-;
matrix
a {-}{A-}-
b CCC
c CCC
d CCC
;
end;
"""
ds = dendropy.DataSet.get(data=NEXUS, schema="nexus")
chars = ds.char_matrices[0]
tree = dendropy.Tree.get(data="((a,b),(c,d));", schema="newick",
                         taxon_namespace=chars.taxon_namespace)
per_char = []
score = treescore.parsimony_score(tree, chars, gaps_as_missing=True,
                                  score_by_character_list=per_char)
print("score", score, "per character", per_char)
sets = chars.taxon_state_sets_map(gaps_as_missing=True)[chars.taxon_namespace.get_taxon("a")]
print("state sets of taxon a:", sets)
assert all(len(s) > 0 for s in sets), "empty state set for a cell: %r" % (sets,)
# every cell of taxon a is 'missing' when gaps are missing data: no change is needed
assert per_char == [0, 0, 0], per_char
assert score == 0, score
