"""
C16 clause violated: "summed over characters with the given weights ... for all
weight vectors" -- argument form.

What it takes: `weights` given as an iterator / generator / map object.  Both
parsimony_score() and fitch_down_pass() document `weights` as "iterable", but
index it (weights[n]); an iterator raises TypeError as soon as one character
needs a change (and is silently accepted if no character changes).  A list with
the same contents gives 8.
"""
import dendropy
from dendropy.calculate import treescore

tns = dendropy.TaxonNamespace(["a", "b", "c", "d"])
chars = dendropy.DnaCharacterMatrix.from_dict(
    {"a": "AC", "b": "AG", "c": "CC", "d": "CG"}, taxon_namespace=tns)
tree = dendropy.Tree.get(data="((a,b),(c,d));", schema="newick", taxon_namespace=tns)
as_list = treescore.parsimony_score(tree, chars, weights=[2, 3])
assert as_list == 8
as_iter = treescore.parsimony_score(tree, chars, weights=iter([2, 3]))   # TypeError
assert as_iter == as_list
