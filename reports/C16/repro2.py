"""
C16 clause violated: "The score is independent of root position" (and "equals
the minimum ... number of state changes").

What it takes: a matrix whose sequences do not all have the same length (DendroPy
accepts such matrices, e.g. from FASTA or from_dict) -- here taxon `a` has one
character, the others two.  fitch_down_pass() zips the children's state-set
lists, so the columns the short sequence lacks are silently dropped at the
parent of `a` AND at every ancestor of it, while the same columns are still
counted in clades that do not contain `a`.  Which nodes are ancestors of `a`
depends on the rooting, so two rootings of the same unrooted tree ((a,b),(c,d))
get different scores (2 vs 1); treating the absent cell as missing data gives 2
for every rooting.
"""
import dendropy
from dendropy.calculate import treescore

tns = dendropy.TaxonNamespace(["a", "b", "c", "d"])
chars = dendropy.DnaCharacterMatrix.from_dict(
    {"a": "A", "b": "AG", "c": "CC", "d": "CG"}, taxon_namespace=tns)

scores = {}
for newick in ("(a,(b,(c,d)));", "(((a,b),c),d);", "((a,b),(c,d));"):
    tree = dendropy.Tree.get(data=newick, schema="newick", taxon_namespace=tns)
    scores[newick] = treescore.parsimony_score(tree, chars)
    print(newick, scores[newick])

# same tree object, re-rooted in place
tree = dendropy.Tree.get(data="(a,(b,(c,d)));", schema="newick", taxon_namespace=tns)
before = treescore.parsimony_score(tree, chars)
d = tree.find_node_with_taxon_label("d")
tree.reroot_at_edge(d.edge, suppress_unifurcations=True, update_bipartitions=False)
after = treescore.parsimony_score(tree, chars)
print("in place:", before, "->", after, tree.as_string("newick").strip())

assert len(set(scores.values())) == 1, "score depends on root position: %r" % scores
assert before == after, (before, after)
