"""
C03 clause concerned: "The multiset of leaf taxa changes only by the taxa the
operation was asked to remove" -- read as "after == before minus requested".

Tree.prune_nodes(nodes) iterates its argument while it detaches the nodes.  If the
argument is the live public iterator over a node's children, Node.child_node_iter()
(or any generator over it), every removal shifts the underlying list and the
iterator skips the next sibling: only every other requested node is pruned, and the
call completes without an error.  (With a list copy, nd.child_nodes(), all are
pruned.)  Weakest finding: nothing is removed that was not requested, but the
operation silently does half of what it was asked.

What it takes: argument form "live iterator over the children of a node of the tree".
"""
import collections
import dendropy

tree = dendropy.Tree.get(data="[&R] ((A:1,B:1,C:1,D:1):1,(E:1,F:1):1);", schema="newick")
clade = tree.seed_node.child_nodes()[0]
requested = [nd.taxon.label for nd in clade.child_node_iter()]
tree.prune_nodes(clade.child_node_iter(), suppress_unifurcations=False)
after = collections.Counter(nd.taxon.label for nd in tree.leaf_node_iter() if nd.taxon)
print("requested", requested, "left", dict(after))
assert not any(l in after for l in requested), "prune_nodes(live child iterator) left %s in the tree" % [l for l in requested if l in after]
print("ok")
