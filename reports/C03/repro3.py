"""
C03 clause violated: "every traversal visits exactly the reachable nodes".

Node.apply(before_fn, after_fn, leaf_fn) started on a node that is NOT the seed
walks out of the subtree: whenever the start node is the last child of its parent,
after_fn is also called on the parent, and on the grand-parent if the parent is a
last child too, ... up to the seed.  (The climb-up loop tests "is the last child of
its parent" but never tests "is the start node".)  Tree.apply() is unaffected
because it starts at the seed.

What it takes: Node.apply() with an after_fn on any internal node that is the last
child of its parent; no mutation is needed, but it is equally wrong after any
history (e.g. after ladderize()/reorder() has moved the node to last position).
"""
import dendropy

tree = dendropy.Tree.get(data="[&R] ((A:1,B:1):1,(C:1,D:1):1);", schema="newick")
start = tree.seed_node.child_nodes()[1]        # the (C,D) clade, last child of the seed
reachable = set(start.preorder_iter())
assert len(reachable) == 3

visited = []
start.apply(before_fn=visited.append, after_fn=visited.append, leaf_fn=visited.append)
outside = [nd for nd in visited if nd not in reachable]
print("visited %d nodes, %d of them outside the subtree (seed visited: %s)" % (
    len(visited), len(outside), tree.seed_node in visited))
assert not outside, "Node.apply() visited nodes that are not reachable from the start node"
print("ok")
