"""
C03 clause violated (bipartition freshness, "the tree's encoding list [is] exactly
what a fresh encoding would produce").

Tree.randomly_reorient(update_bipartitions=True) re-encodes the bipartitions and only
THEN calls randomly_rotate(), which permutes the children of every internal node.
tree.bipartition_encoding is a list in post-order of the edges; after the rotation it
is in an order that no encoding of the tree as it now stands would produce (the
per-edge values are still right, the list is a permutation of the fresh one).

What it takes: randomly_reorient(update_bipartitions=True) with an rng whose shuffle
actually changes some child order (nearly every seed).
"""
import random
import dendropy

bad = []
for seed in range(10):
    tree = dendropy.Tree.get(data="[&R] ((A:1,B:1):1,((C:1,D:1):1,E:1):1);", schema="newick")
    tree.encode_bipartitions()                      # encoding is current
    tree.randomly_reorient(rng=random.Random(seed), update_bipartitions=True)
    got = [(b.leafset_bitmask, b.split_bitmask) for b in tree.bipartition_encoding]
    same_objects = [id(b) for b in tree.bipartition_encoding] == [id(e.bipartition) for e in tree.postorder_edge_iter()]
    fresh = [(b.leafset_bitmask, b.split_bitmask) for b in
             tree.encode_bipartitions(suppress_unifurcations=False, collapse_unrooted_basal_bifurcation=False)]
    assert sorted(got) == sorted(fresh)             # values are fine
    if got != fresh or not same_objects:
        bad.append(seed)
print("rng seeds for which the encoding list is not the fresh list:", bad)
assert not bad
print("ok")
