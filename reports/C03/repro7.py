"""
C03 clause violated: "each operation either raises a documented error and leaves the
tree well formed or completes", together with the leaf-taxa clause.

Tree.prune_leaves_without_taxa() -- and therefore prune_taxa(), prune_taxa_with_labels(),
retain_taxa*(), prune_nodes(prune_leaves_without_taxa=True), which all finish by calling
it -- has no guard for the seed node.  On a tree none of whose tips carries a taxon
(e.g. a tree read with suppress_leaf_node_taxa=True, or after unassign_taxa()) the
recursive clean-up removes every tip, then every internal node that became a tip, and
when only the seed is left it dies with the undocumented
    AttributeError: 'NoneType' object has no attribute 'remove_child'
The tree is reduced to a bare seed node although the caller asked to remove nothing
(prune_taxa([])).  filter_leaf_nodes() raises the documented SeedNodeDeletionException
in the same situation; this code path does not.

What it takes: a tree whose leaves have no taxa, and any of the taxon-pruning calls,
even with an EMPTY container of taxa.
"""
import dendropy

tree = dendropy.Tree.get(data="[&R] ((A:1,B:1):1,(C:1,D:1):1);", schema="newick", suppress_leaf_node_taxa=True)
labels_before = sorted(nd.label for nd in tree.leaf_node_iter())
n_before = len(tree.nodes())
err = None
try:
    tree.prune_taxa([])                 # asked to remove nothing
except Exception as e:
    err = e
    print("raised %s: %s" % (type(e).__name__, e))
labels_after = sorted(str(nd.label) for nd in tree.leaf_node_iter())
print("nodes: %d -> %d; tips %s -> %s" % (n_before, len(tree.nodes()), labels_before, labels_after))
assert err is None or isinstance(err, dendropy.utility.error.SeedNodeDeletionException), "undocumented %r" % err
assert len(tree.nodes()) == n_before, "prune_taxa([]) destroyed the tree"
print("ok")
