"""
C03 clause violated: "each operation either raises a documented error and leaves the
tree well formed or completes" (the operation stops half-way with an undocumented
error; the requested suppress_unifurcations / update_bipartitions never happen).

Tree.prune_taxa(..., is_apply_filter_to_internal_nodes=True) removes matching nodes
while it walks the tree in post-order and has no guard for the seed: if the seed
node's own taxon is among the taxa (taxon on an internal node), the call has already
removed the other matching nodes when it reaches the seed and then dies with
    AttributeError: 'NoneType' object has no attribute 'remove_child'
leaving a half-pruned tree (unifurcations not suppressed, taxon-less tips not
removed, bipartitions not updated).  filter_leaf_nodes() and prune_subtree() raise
documented errors (SeedNodeDeletionException / TypeError) for the seed.

What it takes: taxa on internal nodes, is_apply_filter_to_internal_nodes=True, and the
seed's taxon in the container (e.g. prune_taxa(tree.taxon_namespace, ...) or
retain-style complements).
"""
import dendropy

tree = dendropy.Tree.get(data="[&R] ((A:1,B:1)X:1,(C:1,D:1)Y:1)Z;", schema="newick", suppress_internal_node_taxa=False)
tns = tree.taxon_namespace
err = None
try:
    tree.prune_taxa([tns.get_taxon("A"), tns.get_taxon("Z")], is_apply_filter_to_internal_nodes=True,
                    suppress_unifurcations=True)
except Exception as e:
    err = e
    print("raised %s: %s" % (type(e).__name__, e))
print(tree.as_string("newick").strip())
unif = [nd for nd in tree.preorder_node_iter() if len(nd.child_nodes()) == 1]
assert err is None or isinstance(err, (dendropy.utility.error.SeedNodeDeletionException,)), "undocumented %r (tree left half-pruned, %d unifurcation(s))" % (err, len(unif))
print("ok")
