"""
C03 clause violated: "nothing is shared or cyclic" / "the seed node has no parent".

Node.add_child() refuses (documented AssertionError) to add a node to itself or to
add a node's own parent as its child.  Node.insert_child() -- the positional twin of
add_child, used for exactly the same purpose -- has neither guard: it completes
silently and leaves a cycle in the tree.

  * nd.insert_child(0, nd)            -> nd is its own parent and its own child,
                                         while still listed under its old parent;
  * nd.insert_child(0, nd.parent_node)-> 2-cycle; if the parent is the seed, the
                                         seed node now has a parent.
Every traversal of the tree then loops forever (not attempted here).

What it takes: insert_child with the node itself / the node's parent as argument
("the object itself as argument"); the same calls through add_child raise.
"""
import dendropy

tree = dendropy.Tree.get(data="[&R] ((A:1,B:1):1,(C:1,D:1):1);", schema="newick")
nd = tree.seed_node.child_nodes()[0]
for bad in (nd, tree.seed_node):
    try:
        nd.add_child(bad)
    except AssertionError:
        pass
    else:
        raise SystemExit("add_child unexpectedly accepted the argument")

problems = []
try:
    nd.insert_child(0, tree.seed_node)           # own parent as child
except (AssertionError, ValueError):
    pass                                         # a documented refusal would be fine
if tree.seed_node.parent_node is not None:
    problems.append("seed node has a parent after insert_child(0, parent)")

tree = dendropy.Tree.get(data="[&R] ((A:1,B:1):1,(C:1,D:1):1);", schema="newick")
nd = tree.seed_node.child_nodes()[0]
try:
    nd.insert_child(0, nd)                       # itself as child
except (AssertionError, ValueError):
    pass
if nd.parent_node is nd or nd in nd.child_nodes():
    problems.append("node is its own parent/child after insert_child(0, itself)")

print(problems)
assert not problems, problems
print("ok")
