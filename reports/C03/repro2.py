"""
C03 clause violated: "The multiset of leaf taxa changes only by the taxa the
operation was asked to remove" (and, in the taxon-less variant, the set of leaf
*nodes* grows although nothing was asked to be added).

Re-seeding / re-rooting a tree whose seed node has out-degree ONE turns the old
seed into a brand-new LEAF: after the edge inversions the old seed has no children
left, suppress_unifurcations only splices out nodes with exactly one child, so the
childless old seed stays in the tree as a tip.  If the old seed carries a taxon
(taxon on an internal node) that taxon appears in the leaf multiset; if it carries
none the tree gains a taxon-less tip.  reseed_at, reroot_at_node, reroot_at_edge,
to_outgroup_position, reroot_at_midpoint and randomly_reorient all behave this way,
with every setting of suppress_unifurcations / update_bipartitions.

What it takes: a unifurcation at the seed (here produced by an ordinary history:
prune_subtree(..., suppress_unifurcations=False)) and then any re-rooting operation
that was asked to remove nothing.
"""
import collections
import dendropy

def leaf_taxa(tree):
    return collections.Counter(nd.taxon.label if nd.taxon is not None else None for nd in tree.leaf_node_iter())

# -- variant 1: taxa on internal nodes; the multiset of leaf taxa gains 'Z'
tree = dendropy.Tree.get(data="[&R] ((A:1,B:1)X:1,C:2)Z;", schema="newick", suppress_internal_node_taxa=False)
tree.prune_subtree(tree.find_node_with_taxon_label("C"), suppress_unifurcations=False)   # -> ((A,B)X)Z
before = leaf_taxa(tree)
assert before == collections.Counter({"A": 1, "B": 1})
tree.reroot_at_node(tree.find_node_with_taxon_label("X"), suppress_unifurcations=True)
after1 = leaf_taxa(tree)

# -- variant 2: no internal taxa; the tree gains a taxon-less tip
tree2 = dendropy.Tree.get(data="[&U] (((A:1,B:1):1,C:1):1);", schema="newick")
n_leaves_before = len(tree2.leaf_nodes())
tree2.reseed_at(tree2.find_node_with_taxon_label("A").parent_node)
n_leaves_after = len(tree2.leaf_nodes())

print("variant 1 leaf taxa:", dict(before), "->", dict(after1), tree.as_string("newick").strip())
print("variant 2 number of tips:", n_leaves_before, "->", n_leaves_after, tree2.as_string("newick").strip())
assert after1 == before, "re-rooting (asked to remove nothing) changed the multiset of leaf taxa: %s -> %s" % (dict(before), dict(after1))
assert n_leaves_after == n_leaves_before, "re-seeding manufactured a new (taxon-less) tip"
print("ok")
