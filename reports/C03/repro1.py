"""
C03 clause violated: "every traversal visits exactly the reachable nodes" (after a
history of structure-changing operations).

Tree.ageorder_node_iter() only (re)computes node ages when the *seed* node has no
age yet.  Any operation that adds nodes below the seed after the ages have been
computed once (resolve_polytomies, Node.new_child, reroot_at_edge followed by a
re-seeding elsewhere, ...) leaves the new nodes with age None, and the traversal
then dies with an undocumented
    TypeError: '<' not supported between instances of 'NoneType' and 'float'
instead of visiting the reachable nodes.

What it takes: (1) one age-order traversal (or calc_node_ages()), (2) any public
operation that creates a node which is not the seed, (3) a second age-order
traversal.  The tree itself is a perfectly well-formed ultrametric arborescence at
every step.
"""
import dendropy

tree = dendropy.Tree.get(data="[&R] ((A:1,B:1,C:1):2,(D:1,E:1):2);", schema="newick")
first = list(tree.ageorder_node_iter())
assert len(first) == len(tree.nodes()) == 8

tree.resolve_polytomies()            # adds one zero-length internal node; tree stays ultrametric
reachable = tree.nodes()
assert len(reachable) == 9

visited = list(tree.ageorder_node_iter())     # <-- TypeError on the unmodified library
assert sorted(map(id, visited)) == sorted(map(id, reachable)), "age-order traversal does not visit the reachable nodes"
print("ok")
