"""
C03 clause violated: "each operation either raises a documented error and leaves the
tree well formed or completes".

Tree.reroot_at_midpoint() on a tree in which an edge between the deeper of the two
most distant tips and the midpoint has no length (length None; the
PhylogeneticDistanceMatrix the method builds first silently treats None as 0, so the
distances themselves are computed without complaint) dies with the undocumented
    TypeError: '>' not supported between instances of 'NoneType' and 'float'
The tree is left untouched (the error comes before the restructuring), so this is a
mild finding: only the "documented error" half of the clause is violated.  Trees with
missing lengths on other edges are re-rooted without complaint.

What it takes: a tree with some edge lengths missing on the path that is walked, then
reroot_at_midpoint() with any flags.
"""
import dendropy

tree = dendropy.Tree.get(data="[&R] ((A:1,B:1):1,((C:1,D:1),E:1):5);", schema="newick")   # the (C,D) edge has no length
try:
    tree.reroot_at_midpoint()
except TypeError as e:
    raise AssertionError("undocumented TypeError from reroot_at_midpoint(): %s" % e)
print(tree.as_string("newick").strip())
print("ok")
