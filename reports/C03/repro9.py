"""
C03 clause violated (bipartition freshness): "an operation asked to update
bipartitions on a tree whose encoding was current leaves every edge, and the tree's
encoding list, with exactly what a fresh encoding would produce".

Tree.suppress_unifurcations(update_bipartitions=True) edits ``bipartition_encoding``
in place but does not reset the tree's cached ``bipartition_edge_map`` /
``split_bitmask_edge_map`` (a fresh encode_bipartitions() resets both).  If the maps
had been looked at once, they keep pointing at the Edge of the spliced-out
unifurcation node, i.e. at an edge that is no longer part of the tree; the edge that
now carries that bipartition cannot be found through the map.

What it takes: (1) encode with suppress_unifurcations=False on a tree with a
unifurcation, (2) read tree.bipartition_edge_map once, (3)
suppress_unifurcations(update_bipartitions=True).
"""
import dendropy

tree = dendropy.Tree.get(data="[&R] ((A:1,B:1):1,((C:1,D:1):1):1);", schema="newick")
tree.encode_bipartitions(suppress_unifurcations=False)
_ = tree.bipartition_edge_map                       # populate the cache
tree.suppress_unifurcations(update_bipartitions=True)

edges = list(tree.postorder_edge_iter())
# the encoding list itself is fine ...
assert [id(b) for b in tree.bipartition_encoding] == [id(e.bipartition) for e in edges]
# ... but the maps are not what a fresh encoding would give
stale = [e for e in tree.bipartition_edge_map.values() if e not in edges]
wrong = [e for e in edges if tree.bipartition_edge_map[e.bipartition] is not e]
wrong2 = [e for e in edges if tree.split_bitmask_edge_map[e.bipartition.split_bitmask] is not e]
print("edges in the map that are not in the tree:", len(stale), "; tree edges mapped to another edge:", len(wrong), len(wrong2))
assert not stale and not wrong and not wrong2, "bipartition_edge_map is stale after suppress_unifurcations(update_bipartitions=True)"
print("ok")
