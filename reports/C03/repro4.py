"""
C03 clause violated: "each operation either raises a documented error and leaves the
tree well formed or completes" + "the multiset of leaf taxa changes only by the taxa
the operation was asked to remove".

Tree.resolve_polytomies documents its ``rng`` argument as "an object with a sample()
method ... rng.sample() should behave like random.sample()".  The implementation also
needs rng.choice().  With an object that honours the documented contract (sample()
only) the call first DETACHES the sampled children from the polytomy and then dies
with an undocumented  AttributeError: ... has no attribute 'choice' -- the detached
leaves are gone from the tree.  A retry (with a proper rng) succeeds on the damaged
tree, so the loss goes unnoticed.

What it takes: a polytomy, and an rng object that implements exactly the documented
interface.
"""
import collections, random
import dendropy

class DocumentedRng(object):
    "exactly what the docstring of resolve_polytomies asks for"
    def __init__(self, seed):
        self._r = random.Random(seed)
    def sample(self, population, k):
        return self._r.sample(population, k)

tree = dendropy.Tree.get(data="[&R] ((A:1,B:1,C:1,D:1):2,(E:1,F:1):2);", schema="newick")
before = collections.Counter(nd.taxon.label for nd in tree.leaf_node_iter())
try:
    tree.resolve_polytomies(rng=DocumentedRng(1))
except Exception as e:
    print("raised %s: %s" % (type(e).__name__, e))
after = collections.Counter(nd.taxon.label for nd in tree.leaf_node_iter())
print(dict(before), "->", dict(after))
assert after == before, "failed resolve_polytomies() lost leaves: %s -> %s" % (dict(before), dict(after))
print("ok")
