"""
C03 clause violated: "The multiset of leaf taxa changes only by the taxa the
operation was asked to remove" (here: every leaf below the node disappears although
the call asked for the node to keep exactly the children it has).

Node.set_child_nodes(child_nodes) is documented to take any iterable of nodes.  It
first clears the node's child list and only then iterates its argument, so when the
argument is a *lazy* view of the node's own children -- the public
Node.child_node_iter() -- the iterator finds the list already empty: the node ends
up with no children at all and the whole clade is silently dropped from the tree.
(The same call with nd.child_nodes(), a list copy, is the idiom used by
Tree.randomly_rotate and works.)

What it takes: argument form "iterator over the object's own children".
"""
import collections
import dendropy

tree = dendropy.Tree.get(data="[&R] ((A:1,B:1):1,(C:1,D:1):1);", schema="newick")
before = collections.Counter(nd.taxon.label for nd in tree.leaf_node_iter())
nd = tree.seed_node.child_nodes()[0]
nd.set_child_nodes(nd.child_node_iter())          # "re-set" the same children, lazily
after = collections.Counter(nd.taxon.label if nd.taxon else None for nd in tree.leaf_node_iter())
print(dict(before), "->", dict(after), tree.as_string("newick").strip())
assert after == before, "set_child_nodes(own child iterator) dropped the clade: %s -> %s" % (dict(before), dict(after))
print("ok")
