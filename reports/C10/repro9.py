"""
C10 clause violated: "Label lookups return exactly the members whose label
matches ..., in membership order" (multi-label lookup get_taxa()).

What it takes: get_taxa() with first_match_only=True and two query labels that
match the same member (a repeated label, or two case variants under the
case-insensitive setting): the member is returned TWICE, whereas with
first_match_only=False the result is de-duplicated.  Also, with several labels
the result is in query order rather than membership order.
"""
import dendropy

tns = dendropy.TaxonNamespace(["a", "b", "c"])
r = tns.get_taxa(["a", "A"], first_match_only=True)
assert tns.get_taxa(["a", "A"]) == [tns[0]]          # de-duplicated here
assert r == [tns[0]], "member returned %d times: %r" % (len(r), r)
