"""
C10 clause violated (weakly; depends on what "matches up to case" means):
"Label lookups return exactly the members whose label matches under the ...
case-sensitivity setting" with non-ASCII case variants.

What it takes: case-insensitive setting and labels whose str.lower() is
context dependent.  Matching is done on str.lower(), not str.casefold():
Python lower-cases a word-final capital sigma to the final form, so
'ΟΔΥΣΣΕΥΣ' (upper case of 'οδυσσευσ') does not match 'οδυσσευσ', although
'οδυσσευσ'.upper() == 'ΟΔΥΣΣΕΥΣ'; likewise 'STRASSE' / 'straße'.
"""
import dendropy

tns = dendropy.TaxonNamespace(["οδυσσευσ"])
q = "οδυσσευσ".upper()
assert tns.findall(q) == [tns[0]], "%r (upper case of the label) does not match %r" % (q, tns[0].label)
