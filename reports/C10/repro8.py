"""
C10 clause violated: "turning a set of member taxa into a bitmask and back
returns the same taxa" - through the documented taxa_bipartition() route the
conversion fails outright for some flag combinations.

What it takes:
  (a) taxa_bipartition(labels=[...]) together with either of its own
      documented/used keywords ``is_rooted`` or ``tree_leafset_bitmask``:
      all keyword arguments are forwarded to get_taxa(), which rejects them
      (TypeError).  With taxa=[...] instead of labels=[...] the same call works.
  (b) taxa_bipartition(taxa=[]) on a namespace that never had a member
      (all_taxa_bitmask() == 0): TypeError from Bipartition.normalize_bitmask.
"""
import dendropy

tns = dendropy.TaxonNamespace(["a", "b", "c"])
ok = tns.taxa_bipartition(taxa=[tns[0]], is_rooted=True)       # works
assert ok.leafset_taxa(tns) == [tns[0]]
errors = []
try:
    bp = tns.taxa_bipartition(labels=["a"], is_rooted=True)
    assert bp.leafset_taxa(tns) == [tns[0]]
except TypeError as e:
    errors.append("labels= with is_rooted=: %s" % e)
try:
    bp = tns.taxa_bipartition(labels=["a"], tree_leafset_bitmask=0b111)
    assert bp.leafset_taxa(tns) == [tns[0]]
except TypeError as e:
    errors.append("labels= with tree_leafset_bitmask=: %s" % e)
try:
    empty_tns = dendropy.TaxonNamespace()
    bp = empty_tns.taxa_bipartition(taxa=[])
    assert bp.leafset_taxa(empty_tns) == []
except TypeError as e:
    errors.append("empty namespace: %s" % e)
assert not errors, "; ".join(errors)
