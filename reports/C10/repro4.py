"""
C10 clause violated: "An immutable namespace never gains members."

What it takes: a particular interleaving.  A tree iterator
(Tree.yield_from_files) is part-way through a source; the client then freezes
the namespace (is_mutable = False); the next tree in the source mentions a
label that is not in the namespace.  The iterator's symbol mapper remembers
the mutability it found when it STARTED (True) and re-installs it around every
new_taxon(), so the now-immutable namespace gains a member, and when the
iterator finishes the namespace is switched back to mutable.
"""
import io
import dendropy

tns = dendropy.TaxonNamespace(["a", "b"])
it = iter(dendropy.Tree.yield_from_files([io.StringIO("(a,b);(a,c);")], schema="newick", taxon_namespace=tns))
next(it)                      # first tree: only known labels
tns.is_mutable = False        # client freezes the namespace
try:
    for tree in it:           # second tree mentions 'c'
        pass
except Exception:
    pass                      # an ImmutableTaxonNamespaceError would be right
del it
assert len(tns) == 2, "immutable namespace gained %s" % tns.labels()[2:]
assert tns.is_mutable is False, "namespace was switched back to mutable"
