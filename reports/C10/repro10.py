"""
C10 clause violated: "Label lookups return exactly the members whose label
matches under ... the call's case-sensitivity setting".

What it takes: passing the per-call override as a truthy value that is not the
object True (1, numpy.bool_(True), ...).  _lookup_label() tests
``is_case_sensitive is True`` and otherwise falls into the case-INsensitive
branch unless the value is None, so is_case_sensitive=1 behaves like False.
"""
import dendropy

tns = dendropy.TaxonNamespace(["a", "b"])
assert tns.findall("A", is_case_sensitive=True) == []
r = tns.findall("A", is_case_sensitive=1)
assert r == [], "is_case_sensitive=1 matched case-insensitively: %r" % r
