"""
C10 clause violated: "requiring a label returns the first match or else
creates exactly one new member" (on a mutable namespace).

What it takes: a failed call followed by a retry.  A MUTABLE, non-empty
namespace is passed to PhylogeneticDistanceMatrix.from_csv() with default
arguments and a table that mentions an unknown label.  from_csv() sets
``is_mutable`` to its ``is_allow_new_taxa`` argument (None here) and only
restores it on the success path, so after the (legitimate) error the namespace
is left with is_mutable=None for good: every later require_taxon()/new_taxon()
of a new label raises ImmutableTaxonNamespaceError instead of creating the
member.
"""
import io
import dendropy

tns = dendropy.TaxonNamespace(["a", "b"])
assert tns.is_mutable is True
try:
    dendropy.PhylogeneticDistanceMatrix.from_csv(
            io.StringIO(",a,b,c\na,0,1,2\nb,1,0,3\nc,2,3,0\n"), taxon_namespace=tns, delimiter=",")
except Exception as e:
    pass     # refusing the unknown label 'c' is the documented behaviour
assert len(tns) == 2
n = len(tns)
t = tns.require_taxon("z")     # namespace was mutable: must create exactly one member
assert len(tns) == n + 1 and t.label == "z"
