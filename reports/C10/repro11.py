"""
C10 clause violated: "Label lookups return exactly the members whose label
matches under the namespace's ... case-sensitivity setting" - for labels that
are not strings the two settings disagree about what "matches" means, and
label_taxon_map() fails.

What it takes: a member whose label is not a str (new_taxon(1); labels are
documented as "string or string-like").  Case-insensitively both 1 and "1"
find it (labels are compared as lower-cased strings); case-sensitively only 1
does ("1" == 1 is False), so a stricter setting loses an exactly spelled match;
label_taxon_map() with the default (case-insensitive) setting raises
AttributeError for such a member (and for an unlabelled one).
"""
import dendropy

tns = dendropy.TaxonNamespace()
t = tns.new_taxon(1)
assert tns.get_taxon("1") is t and tns.get_taxon(1) is t
problems = []
if tns.get_taxon("1", is_case_sensitive=True) is not t:
    problems.append("case-sensitive lookup of '1' misses the member labelled 1")
try:
    tns.label_taxon_map()
except AttributeError as e:
    problems.append("label_taxon_map(): %s" % e)
assert not problems, "; ".join(problems)
