"""
C10 clause violated: "requiring a label returns the first match" / "Label
lookups return exactly the members whose label matches ... in membership
order".

What it takes: a namespace in which more than one member matches a label
(duplicate labels, or - under the default case-insensitive setting - members
differing only in case), and a lookup that goes through
TaxonNamespace.label_taxon_map(): the method itself, and the NEWICK / NEXUS
tree readers (NexusTaxonSymbolMapper) and the NeXML reader, which resolve leaf
labels through such a map.  The map keeps the LAST matching member, so the
readers bind the label to a different member than get_taxon()/require_taxon()
(and the FASTA/PHYLIP/NEXUS character readers, which use require_taxon) do -
even when an earlier member is spelled exactly like the label.
"""
import dendropy

tns = dendropy.TaxonNamespace()          # case-insensitive (default)
a = tns.new_taxon("a")
b = tns.new_taxon("b")
A = tns.new_taxon("A")                   # matches "a" up to case, comes later
n = len(tns)

first = tns.get_taxon("a")
assert first is a and tns.require_taxon("a") is a and len(tns) == n

problems = []
if tns.label_taxon_map()["a"] is not a:
    problems.append("label_taxon_map()['a'] is member #%d" % list(tns).index(tns.label_taxon_map()["a"]))

tree = dendropy.Tree.get(data="(a,b);", schema="newick", taxon_namespace=tns)
leaf = [nd.taxon for nd in tree.leaf_node_iter()][0]
if leaf is not a:
    problems.append("newick reader bound leaf 'a' to member #%d (%r)" % (list(tns).index(leaf), leaf.label))

tree = dendropy.Tree.get(data="#NEXUS\nbegin trees;\ntree 1 = (a,b);\nend;\n", schema="nexus", taxon_namespace=tns)
leaf = [nd.taxon for nd in tree.leaf_node_iter()][0]
if leaf is not a:
    problems.append("nexus reader bound leaf 'a' to member #%d (%r)" % (list(tns).index(leaf), leaf.label))

# same with exact duplicates
tns2 = dendropy.TaxonNamespace()
x1 = tns2.new_taxon("x"); y = tns2.new_taxon("y"); x2 = tns2.new_taxon("x")
tree = dendropy.Tree.get(data="(x,y);", schema="newick", taxon_namespace=tns2)
leaf = [nd.taxon for nd in tree.leaf_node_iter()][0]
if leaf is not x1:
    problems.append("newick reader bound leaf 'x' to the second of two members labelled 'x'")

assert len(tns) == n
assert not problems, "; ".join(problems)
