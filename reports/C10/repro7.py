"""
C10 clause violated: "every textual rendering of a bitmask names exactly those
taxa" (for the empty subset of members).

What it takes: the bitmask of the empty set of taxa (0), e.g. the result of
taxa_bitmask(taxa=[]) or of taxa_bitmask(labels=[...]) when no label matches.
bitmask_as_newick_string() / split_as_newick_string() (and hence
Bipartition.leafset_as_newick_string()) special-case 0 like the all-taxa mask
and render "(a,b,c);" - the same string as for the set of ALL members.
"""
import dendropy

tns = dendropy.TaxonNamespace(["a", "b", "c"])
empty = tns.taxa_bitmask(taxa=[])
everything = tns.taxa_bitmask(taxa=list(tns))
assert empty == 0 and tns.bitmask_taxa_list(empty) == []
s_empty = tns.bitmask_as_newick_string(empty)
s_all = tns.bitmask_as_newick_string(everything)
assert s_empty != s_all, "empty set and full set both rendered as %s" % s_empty
for label in tns.labels():
    assert label not in s_empty, "rendering of the empty set names %r: %s" % (label, s_empty)
