"""
C10 clause violated: "An immutable namespace never gains members."

What it takes: hand an immutable TaxonNamespace to
PhylogeneticDistanceMatrix.from_csv().  from_csv() overwrites
``taxon_namespace.is_mutable`` with its ``is_allow_new_taxa`` argument for the
duration of the read, so

  (a) an EMPTY immutable namespace + default arguments (is_allow_new_taxa then
      defaults to True), or
  (b) ANY immutable namespace + is_allow_new_taxa=True

gains one new member per unknown row label, without any error.
"""
import io
import dendropy

CSV = ",a,b,c\na,0,1,2\nb,1,0,3\nc,2,3,0\n"

# (a) empty immutable namespace, all-default call
tns = dendropy.TaxonNamespace()
tns.is_mutable = False
try:
    dendropy.PhylogeneticDistanceMatrix.from_csv(io.StringIO(CSV), taxon_namespace=tns, delimiter=",")
except Exception:
    pass  # raising would be fine: the point is that no member may appear
assert len(tns) == 0, "(a) immutable namespace gained members: %s" % tns.labels()

# (b) populated immutable namespace, is_allow_new_taxa=True
tns = dendropy.TaxonNamespace(["a", "b"])
tns.is_mutable = False
try:
    dendropy.PhylogeneticDistanceMatrix.from_csv(io.StringIO(CSV), taxon_namespace=tns,
            is_allow_new_taxa=True, delimiter=",")
except Exception:
    pass
assert len(tns) == 2, "(b) immutable namespace gained members: %s" % tns.labels()
