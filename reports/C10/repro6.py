"""
C10 clause violated: "Label lookups return exactly the members whose label
matches under the namespace's, or the call's, case-sensitivity setting".

What it takes: a CASE-SENSITIVE namespace holding two members that differ only
in case ('a' before 'A'), and data keyed by 'A' brought in through a route that
silently looks the label up case-insensitively although the caller never asked
for that: CharacterMatrix.from_dict(), the NEXUS DATA/CHARACTERS block reader
and the NeXML reader (the NEWICK/NEXUS *tree* readers refuse such a namespace
with a ValueError instead, and FASTA/PHYLIP honour the namespace setting).
The sequence / leaf for 'A' ends up on member 'a' (or 'B' on 'b').
"""
import dendropy

def mk():
    return dendropy.TaxonNamespace(["a", "A", "b"], is_case_sensitive=True)

problems = []

tns = mk()
cm = dendropy.DnaCharacterMatrix.from_dict({"A": "AC"}, taxon_namespace=tns)
got = [t for t in cm][0]
if got is not tns[1]:
    problems.append("from_dict put the sequence of 'A' on member %r" % got.label)

tns = mk()
nexus = "#NEXUS\nbegin data;\ndimensions ntax=1 nchar=2;\nformat datatype=dna;\nmatrix\nA AC\n;\nend;\n"
cm = dendropy.DnaCharacterMatrix.get(data=nexus, schema="nexus", taxon_namespace=tns)
got = [t for t in cm][0]
if got is not tns[1]:
    problems.append("NEXUS data block put the sequence of 'A' on member %r" % got.label)

tns = mk()
nexml = dendropy.Tree.get(data="(A,B);", schema="newick", case_sensitive_taxon_labels=True).as_string("nexml")
tree = dendropy.Tree.get(data=nexml, schema="nexml", taxon_namespace=tns)
labels = sorted(nd.taxon.label for nd in tree.leaf_node_iter())
if labels != ["A", "B"]:
    problems.append("NeXML reader bound leaves A,B to members %r of a case-sensitive namespace" % labels)

assert not problems, "; ".join(problems)
