"""
C10 clause violated: "requiring a label returns the first match or else
creates exactly one new member" and "Label lookups return exactly the members
whose label matches under the namespace's ... case-sensitivity setting".

What it takes: an unlabelled member (label None) in a namespace with the
DEFAULT case-insensitive setting.  The case-insensitive branch compares
str(label).lower() == "none" with the member's lower_cased_label, which is
None for an unlabelled taxon, so the unlabelled member is never found:
get_taxon(None) returns None although a member with that label exists, and
every require_taxon(None) creates yet another member.  With
is_case_sensitive=True the same calls find the member.
"""
import dendropy

tns = dendropy.TaxonNamespace()           # case-insensitive (default)
t1 = tns.require_taxon(None)              # creates the unlabelled member
assert len(tns) == 1 and t1.label is None
assert tns.findall(None, is_case_sensitive=True) == [t1]     # fine
found = tns.get_taxon(None)
t2 = tns.require_taxon(None)
assert found is t1, "get_taxon(None) -> %r although an unlabelled member exists" % (found,)
assert t2 is t1 and len(tns) == 1, "require_taxon(None) created another member: %d members" % len(tns)
