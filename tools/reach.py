#!/venv/bin/python
"""Reach measurement (development aid, not a check): which library code do a property's machines enter?

  PYTHONHASHSEED=0 tools/reach.py C19 [runs] [tier] [seed]

Runs the first <runs> plans of every machine of the property in this process under coverage.py (line tracer),
and prints, per library module, lines executed / executable, and every function of those modules that was never
entered. Written to reach/<P>.json. The step clock (sys.monitoring) stays active, so the runs are the same runs
the check makes.
"""
import ast
import json
import os
import sys

HERE = os.path.dirname(os.path.abspath(__file__))
VERIF = os.path.dirname(HERE)
REPO_SRC = os.environ.get("DSIM_REPO_SRC", "/repo/src")
sys.dont_write_bytecode = True
sys.path.insert(0, REPO_SRC)
sys.path.insert(0, VERIF)

import coverage  # noqa: E402

prop = sys.argv[1]
nruns = int(sys.argv[2]) if len(sys.argv) > 2 else 1500
tier = sys.argv[3] if len(sys.argv) > 3 else "quick"
seed = int(sys.argv[4]) if len(sys.argv) > 4 else 0

cov = coverage.Coverage(data_file=None, source=[os.path.join(REPO_SRC, "dendropy")], branch=False)
cov.start()
import dendropy  # noqa: E402,F401
from dsim import driver, engine  # noqa: E402

for m in driver.machines_for(prop):
    n = max(50, int(nruns * getattr(m, "reach_scale", 1)))
    for i in range(n):
        plan = m.gen(engine.run_rng(seed, m.name, i), tier)
        plan["machine"] = m.name
        engine.execute(m, plan)
cov.stop()

data = cov.get_data()
out = {"property": prop, "runs_per_machine": nruns, "tier": tier, "seed": seed, "modules": {}}
for fn in sorted(data.measured_files()):
    rel = os.path.relpath(fn, REPO_SRC)
    try:
        _, executable, _, missing, _ = cov.analysis2(fn)
    except Exception:
        continue
    hit = set(data.lines(fn) or ())
    tree = ast.parse(open(fn).read())
    never = []
    nfunc = 0

    def walk(node, prefix):
        global nfunc
        for ch in ast.iter_child_nodes(node):
            if isinstance(ch, (ast.FunctionDef, ast.AsyncFunctionDef)):
                nfunc += 1
                body = [s.lineno for s in ast.walk(ch) if isinstance(s, ast.stmt) and s is not ch]
                if body and not any(b in hit for b in body):
                    never.append(prefix + ch.name)
                walk(ch, prefix + ch.name + ".")
            elif isinstance(ch, ast.ClassDef):
                walk(ch, prefix + ch.name + ".")
            else:
                walk(ch, prefix)
    walk(tree, "")
    ex = len(executable)
    h = ex - len(missing)
    if h == 0:
        continue
    out["modules"][rel] = {"lines_executed": h, "lines_executable": ex, "functions": nfunc, "functions_never_entered": never}
os.makedirs(os.path.join(VERIF, "reach"), exist_ok=True)
with open(os.path.join(VERIF, "reach", prop + ".json"), "w") as f:
    json.dump(out, f, indent=1, sort_keys=True)
for rel, d in sorted(out["modules"].items(), key=lambda kv: -kv[1]["lines_executed"])[:25]:
    print("%-55s %5d/%5d lines  %3d/%3d functions never entered" % (rel, d["lines_executed"], d["lines_executable"], len(d["functions_never_entered"]), d["functions"]))
