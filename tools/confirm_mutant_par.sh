#!/bin/bash
# usage: tools/confirm_mutant_par.sh <mutant-dir> <seeded-name> <PROPERTY> <round> [env for the check...]
# Like confirm_mutant.sh, but never touches /repo or /verif's evidence: the change is applied in a scratch
# worktree of /repo HEAD (/tmp/wt_cm_<name>) and the quick check runs from a scratch copy of /verif
# (/tmp/vc_<name>) with DSIM_REPO_SRC pointing at that worktree, so several changes can be confirmed at once.
# Both scratch directories are removed at the end.
set -u
D=$1; NAME=$2; P=$3; ROUND=$4; shift 4
WT=/tmp/wt_cm_$NAME; VC=/tmp/vc_$NAME; T=/tmp/cm_$NAME; mkdir -p $T
git -C /repo worktree add -q --detach $WT HEAD || exit 4
PYTHONPATH=$WT/src timeout 300 /venv/bin/python $D/demo.py >$T/base.out 2>&1; BASE=$?
if ! git -C $WT apply --check $D/patch.diff 2>$T/apply.err; then echo "$NAME: patch does not apply to current HEAD: $(head -2 $T/apply.err)"; git -C /repo worktree remove --force $WT; exit 3; fi
git -C $WT apply $D/patch.diff
PYTHONPATH=$WT/src timeout 300 /venv/bin/python $D/demo.py >$T/mut.out 2>&1; MUT=$?
(cd $WT && PYTHONPATH=$WT/src timeout 1500 /venv/bin/python -m pytest -q -p no:cacheprovider -n 6 --timeout=900 tests 2>&1 | tail -1) > $T/suite.out
SUITE=$(cat $T/suite.out)
rsync -a --exclude .git --exclude replays /verif/ $VC/
T0=$(date +%s)
(cd $VC && env DSIM_REPO_SRC=$WT/src "$@" timeout 2400 bin/check run $P --tier quick > $T/check.out 2>$T/check.err); RC=$?
T1=$(date +%s)
echo "$NAME: demo without change rc=$BASE, with change rc=$MUT; suite with change: $SUITE; check rc=$RC wall=$((T1-T0))s violations=$(grep -c '^VIOLATION' $T/check.out)"
mkdir -p /verif/seeded/$NAME
cp $D/patch.diff $D/demo.py /verif/seeded/$NAME/; [ -f $D/notes.md ] && cp $D/notes.md /verif/seeded/$NAME/
/venv/bin/python - "$NAME" "$P" "$BASE" "$MUT" "$SUITE" "$RC" "$((T1-T0))" "$*" "$T" "$ROUND" <<'PY'
import sys, json, re
name, prop, base, mut, suite, rc, wall, env, T, rnd = sys.argv[1:11]
sigs = []
for l in open(T + '/check.err'):
    m = re.search(r'violation (\{.*?\}) x(\d+): (.*)', l)
    if m:
        try: sigs.append({"signature": json.loads(m.group(1)), "hits": int(m.group(2)), "message": m.group(3)[:300]})
        except Exception: pass
summary = [l.strip() for l in open(T + '/check.out') if l.startswith('property=')]
meta = {
 "property": prop,
 "breaks": "see notes.md",
 "needs_to_manifest": "see notes.md",
 "round": int(rnd),
 "confirmed": {
   "demo_exit_without_change": int(base), "demo_exit_with_change": int(mut),
   "existing_suite_with_change": suite,
   "how": "scratch worktree of /repo HEAD under /tmp (removed afterwards): demo.py with PYTHONPATH=<worktree>/src, then `python -m pytest -q -p no:cacheprovider -n 6 tests`",
 },
 "check": {"command": "git -C /repo apply seeded/%s/patch.diff && %s bin/check run %s --tier quick ; git -C /repo checkout -- ." % (name, env, prop),
           "ran_as": "the same quick check from a scratch copy of /verif with DSIM_REPO_SRC=<worktree with the change>/src (tools/confirm_mutant_par.sh)",
           "exit_status": int(rc), "wall_s": int(wall), "detected": int(rc) == 1, "summary": summary, "violations": sigs[:8]},
 "detection_history": [{"machinery": "as of round %s filing" % rnd, "detected": int(rc) == 1}],
}
json.dump(meta, open('/verif/seeded/%s/meta.json' % name, 'w'), indent=1)
print(name, json.dumps(meta["check"]["violations"][:3])[:600])
PY
git -C /repo worktree remove --force $WT; rm -rf $VC
