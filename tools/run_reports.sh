#!/bin/bash
# Runs every reproducer the round-6 sub-agents wrote for violations in the (then) unchanged library against /repo's
# working tree.  A reproducer exits non-zero while the violation exists.  Writes reports/STATUS.txt.
cd /verif/reports
: > STATUS.txt
for p in C*/; do
  p=${p%/}
  for f in $(ls $p/repro*.py | sort -V); do
    (cd $p && PYTHONPATH=/repo/src timeout 120 /venv/bin/python $(basename $f) >/dev/null 2>&1); rc=$?
    if [ $rc -eq 0 ]; then st="no longer reproduces (repaired)"; elif [ $rc -eq 124 ]; then st="still reproduces (does not finish within 120 s)"; else st="still reproduces"; fi
    echo "$p/$(basename $f): $st" | tee -a STATUS.txt
  done
done
