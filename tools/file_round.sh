#!/bin/bash
# files every finished /tmp/mut_<ID>_<x> (with patch.diff, demo.py, notes.md) that is not yet under seeded/
cd /verif
for d in /tmp/mut_C*_k; do
  [ -f $d/patch.diff ] && [ -f $d/demo.py ] && [ -f $d/notes.md ] || continue
  b=$(basename $d); id=${b#mut_}; prop=${id%_*}; x=${id#*_}
  name="$prop-$x-round6"
  ls -d seeded/$prop-$x-* >/dev/null 2>&1 && continue
  echo "=== $b"
  tools/confirm_mutant.sh $d $name $prop 2>&1 | tail -4 | cut -c1-500
done
