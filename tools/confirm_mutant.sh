#!/bin/bash
# usage: tools/confirm_mutant.sh <mutant-dir> <seeded-name> <PROPERTY> [env for the check...]
# 1. confirms in a scratch worktree (outside /repo and /verif) that the change applies, that the demonstration
#    passes without it and fails with it, and that the existing test suite still passes with it;
# 2. runs the property's quick check against /repo with the change applied (and restores /repo);
# 3. files the change under /verif/seeded/<name>/ with meta.json.
set -u
D=$1; NAME=$2; P=$3; shift 3
WT=/tmp/wt_verify
if [ ! -d $WT ]; then git -C /repo worktree add -q --detach $WT HEAD; fi
git -C $WT checkout -q --detach $(git -C /repo rev-parse HEAD); git -C $WT checkout -- . ; git -C $WT clean -fdq
PYTHONPATH=$WT/src timeout 300 /venv/bin/python $D/demo.py >/tmp/cm_base.out 2>&1; BASE=$?
if ! git -C $WT apply --check $D/patch.diff 2>/tmp/cm_apply.err; then echo "patch does not apply to current HEAD: $(head -2 /tmp/cm_apply.err)"; exit 3; fi
git -C $WT apply $D/patch.diff
PYTHONPATH=$WT/src timeout 300 /venv/bin/python $D/demo.py >/tmp/cm_mut.out 2>&1; MUT=$?
(cd $WT && PYTHONPATH=$WT/src timeout 1500 /venv/bin/python -m pytest -q -p no:cacheprovider -n 12 --timeout=900 tests 2>&1 | tail -1) > /tmp/cm_suite.out
SUITE=$(cat /tmp/cm_suite.out)
git -C $WT checkout -- . ; git -C $WT clean -fdq
echo "demo without change rc=$BASE, with change rc=$MUT; suite with change: $SUITE"
# check against /repo
cd /repo; if ! git diff --quiet; then echo "/repo dirty"; exit 2; fi
git apply $D/patch.diff
cd /verif; T0=$(date +%s)
env "$@" timeout 2400 bin/check run $P --tier quick > /tmp/cm_check.out 2>/tmp/cm_check.err; RC=$?
T1=$(date +%s)
git -C /repo checkout -- .
echo "check rc=$RC wall=$((T1-T0))s"; grep -c "^VIOLATION" /tmp/cm_check.out
mkdir -p /verif/seeded/$NAME
cp $D/patch.diff $D/demo.py /verif/seeded/$NAME/; [ -f $D/notes.md ] && cp $D/notes.md /verif/seeded/$NAME/
/venv/bin/python - "$NAME" "$P" "$BASE" "$MUT" "$SUITE" "$RC" "$((T1-T0))" "$*" <<'PY'
import sys, json, re
name, prop, base, mut, suite, rc, wall, env = sys.argv[1:9]
sigs = []
for l in open('/tmp/cm_check.err'):
    m = re.search(r'violation (\{.*?\}) x(\d+): (.*)', l)
    if m:
        try: sigs.append({"signature": json.loads(m.group(1)), "hits": int(m.group(2)), "message": m.group(3)[:300]})
        except Exception: pass
summary = [l.strip() for l in open('/tmp/cm_check.out') if l.startswith('property=')]
notes = ''
try: notes = open('/verif/seeded/%s/notes.md' % name).read()
except Exception: pass
meta = {
 "property": prop,
 "breaks": "see notes.md",
 "needs_to_manifest": "see notes.md",
 "confirmed": {
   "demo_exit_without_change": int(base), "demo_exit_with_change": int(mut),
   "existing_suite_with_change": suite,
   "how": "scratch worktree /tmp/wt_verify of /repo HEAD (removed afterwards): demo.py with PYTHONPATH=<worktree>/src, then `python -m pytest -q -p no:cacheprovider -n 12 tests`",
 },
 "check": {"command": "git -C /repo apply seeded/%s/patch.diff && %s bin/check run %s --tier quick ; git -C /repo checkout -- ." % (name, env, prop),
           "exit_status": int(rc), "wall_s": int(wall), "detected": int(rc) == 1, "summary": summary, "violations": sigs[:8]},
}
json.dump(meta, open('/verif/seeded/%s/meta.json' % name, 'w'), indent=1)
print(json.dumps(meta["check"]["violations"][:3])[:600])
PY
