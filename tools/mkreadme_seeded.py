#!/venv/bin/python
"""Appends a table row to seeded/README.md for every seeded change that has none yet (from its meta.json)."""
import json, os, sys
root = '/verif/seeded'
readme = open(os.path.join(root, 'README.md')).read()
rows = []
for n in sorted(os.listdir(root)):
    p = os.path.join(root, n, 'meta.json')
    if not os.path.isfile(p) or ("| %s |" % n) in readme:
        continue
    m = json.load(open(p))
    fr = m.get('final_regression') or {}
    chk = "exit %s, %s" % (fr.get('exit_status', m['check']['exit_status']),
                           ", ".join(fr.get('violation_classes') or sorted(set(v['signature']['class'] for v in m['check'].get('violations', [])))))
    if m['check'].get('detected'):
        hist = "caught as written (round %s)" % m.get('round', '?')
    else:
        hist = "MISSED at first (round %s); %s" % (m.get('round', '?'), m.get('strengthening', 'see DESIGN.md section 14'))
    if m.get('rebased'):
        hist += "; rebased onto %s: %s" % (m['rebased']['onto'], m['rebased']['how'])
    rows.append("| %s | %s | %s | %s | %s | %s |" % (n, m['property'], m['breaks'].replace('|', '/'), m['needs_to_manifest'].replace('|', '/'), chk, hist))
if rows:
    if not readme.endswith('\n'):
        readme += '\n'
    # the table is the last thing in the file or followed by text: insert after the last table row
    lines = readme.split('\n')
    last = max(i for i, l in enumerate(lines) if l.startswith('| '))
    lines[last + 1:last + 1] = rows
    open(os.path.join(root, 'README.md'), 'w').write('\n'.join(lines))
print("%d rows added" % len(rows))
