#!/bin/bash
# usage: tools/trymutant.sh <mutant-dir containing patch.diff, demo.py> <PROPERTY> [extra env like DSIM_SCALE=2]
# Applies the patch to /repo, runs the demonstration and the property's quick check, and always restores /repo.
set -u
D=$1; P=$2; shift 2
cd /repo || exit 2
if ! git diff --quiet; then echo "/repo has local changes - refusing"; exit 2; fi
echo "== baseline demo (unpatched)"; PYTHONPATH=/repo/src timeout 300 /venv/bin/python $D/demo.py >/tmp/demo_base.out 2>&1; echo "rc=$?"
if ! git apply --check $D/patch.diff 2>/tmp/apply.err; then echo "PATCH DOES NOT APPLY"; cat /tmp/apply.err; exit 3; fi
git apply $D/patch.diff
trap 'git -C /repo checkout -- . ; echo "== /repo restored"' EXIT
echo "== demo with patch"; PYTHONPATH=/repo/src timeout 300 /venv/bin/python $D/demo.py >/tmp/demo_mut.out 2>&1; echo "rc=$?"; tail -3 /tmp/demo_mut.out
echo "== quick check $P"
cd /verif
T0=$(date +%s)
env "$@" timeout 1800 bin/check run $P --tier quick > /tmp/check_mut.out 2>/tmp/check_mut.err; RC=$?
T1=$(date +%s)
echo "check rc=$RC wall=$((T1-T0))s"
grep -E "^VIOLATION|^KNOWN|^property=|HARNESS" /tmp/check_mut.out /tmp/check_mut.err | cut -c1-260
grep "dsim. violation" /tmp/check_mut.err | cut -c1-400 | head -8
