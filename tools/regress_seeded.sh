#!/bin/bash
# Re-runs the quick check of every seeded change against the current machinery and /repo HEAD.
# usage: tools/regress_seeded.sh [name-prefix]
cd /verif
OUT=/verif/seeded/REGRESSION.txt
: > $OUT
for d in seeded/${1:-}*/; do
  n=$(basename $d); prop=${n%%-*}
  cd /repo; if ! git diff --quiet; then echo "/repo dirty"; exit 2; fi
  if ! git apply --check /verif/$d/patch.diff 2>/dev/null; then echo "$n PATCH-DOES-NOT-APPLY" | tee -a $OUT; continue; fi
  git apply /verif/$d/patch.diff
  cd /verif; T0=$(date +%s)
  timeout 2400 bin/check run $prop --tier quick > /tmp/rg.out 2>/tmp/rg.err; RC=$?
  T1=$(date +%s)
  git -C /repo checkout -- .
  NV=$(grep -c "^VIOLATION" /tmp/rg.out)
  CL=$(grep "dsim. violation" /tmp/rg.err | sed -E 's/.*"class":"([A-Z_]+)".*/\1/' | sort -u | tr '\n' ',')
  echo "$n exit=$RC violations=$NV wall=$((T1-T0))s classes=$CL" | tee -a $OUT
  /venv/bin/python - "$n" "$RC" "$((T1-T0))" "$CL" <<'PY'
import sys,json
n,rc,wall,cl=sys.argv[1:5]
p='/verif/seeded/%s/meta.json'%n
m=json.load(open(p))
m['final_regression']={"exit_status":int(rc),"detected":int(rc)==1,"wall_s":int(wall),"violation_classes":[c for c in cl.split(',') if c]}
json.dump(m,open(p,'w'),indent=1)
PY
done
rm -rf /verif/replays
