#!/venv/bin/python
"""Writes /verif/MANIFEST.json from the tables below (kept in one place so the
manifest is always valid and in step with dsim/driver.py)."""
import json, os, sys
HERE = os.path.dirname(os.path.dirname(os.path.abspath(__file__)))

NA = {
 "C01": "Pure function of tree shape, rooting flag and taxon->bit map; no schedule, fault, clock, RNG or operation history in the statement (quantifier: inputs, configurations). The one stateful facet - cached encodings going stale after an edit - is the last sentence of C03 and is checked there. Deterministic simulation has nothing to decide; input generation with an oracle would be a change of technique.",
 "C02": "Codec round trip as a function of (trees, writer options, reader options); the readers pull one character at a time from one sequential stream, so no I/O behaviour, schedule or fault can influence the result. What a crashed writer leaves behind is C20; route equivalence is C13.",
 "C05": "Frequencies, consensus characterisation and summaries are functions of the multiset of input trees, thresholds and settings (quantifier: inputs, configurations). Its only history-dependent ingredient (cache invalidation when more trees are merged) runs inside C06's machine A, whose oracle is differential, so exactness against the definitions is not decided by this technique family.",
 "C07": "Single-call postconditions of re-rooting operations as functions of (tree, target, flags); ties and midpoint-on-node coincidences are input classes, not schedules or faults. Well-formedness of the same operations under arbitrary histories is C03 (claimed).",
 "C08": "Single-call postconditions of pruning/extraction as functions of (tree, taxon subset, flags); agreement between API variants is a relation between pure functions.",
 "C09": "Codec round trip of character matrices as a function of (matrix, format, options); see C02. Crash points of the same formats are C20, routes C13.",
 "C14": "Path distances, MRCA and NJ/UPGMA are functions of a tree or of a distance matrix; 'provided the encoding is current' is a precondition, not a behaviour with a schedule or fault in it.",
 "C15": "Traversal order is a function of (tree shape, start node, filter); nothing for a simulator to decide. (C03's step invariant compares every iterator's node set with the raw walk after every operation, but defining-order exactness is a per-input property.)",
 "C17": "Node ages, the ultrametricity check and tree statistics are functions of (tree, precision, options).",
}

CHECKS = {}
def check(pid, text, note, technique, design_ref, category="exploration"):
    CHECKS[pid] = {
        "property_id": pid,
        "quick_cmd": "bin/check run %s --tier quick" % pid,
        "thorough_cmd": "bin/check run %s --tier thorough" % pid,
        "evidence_file": "evidence/%s.json" % pid,
        "replay_cmd_template": "bin/check replay {path}",
        "engine": "dsim",
        "level_claimed": {"category": category, "text": text, "design_ref": design_ref},
        "level_note": note,
        "technique": technique,
    }

check("C06",
      "Seeded search over schedules and operation histories. Machine B runs the real sumtrees.main() in-process with worker processes, multiprocessing queues/lock, pickling, cpu_count, clock and file system simulated; every synchronisation point is a scheduling decision drawn from the run's choice stream (ideal and faithful queue models run separately) and the parallel summary is compared with the serial run of the same argv; deadlock/no-progress is reported. Machine A drives TreeArray shards through seeded add/merge/query histories against a reference built serially. A clean batch is sampling evidence, not proof.",
      "Trusted: the serial run / one-at-a-time TreeArray as reference (differential oracle); workers are threads of one interpreter, isolation approximated by pickling at queue boundaries; the faithful queue model encodes two documented CPython multiprocessing.Queue behaviours (feeder delay, reader-lock contention), FIFO otherwise.",
      "deterministic simulation: seeded scheduler over baton-passing worker threads + simulated queues/FS/clock; differential oracle vs serial run; seeded merge histories vs reference model",
      "DESIGN.md section 4, C06")
check("C20",
      "Fault enumeration + seeded fault injection on the simulated disk: for every seeded valid document (templates and documents written by the library's own writers into SimFS) EVERY truncation offset is read back (complete crash-point sweep per document), plus seeded single/double edits, bit flips and token soup; each read runs under a deterministic step clock (sys.monitoring) so non-termination is a budget overrun confirmed at 20x. The choice of documents is sampled, the crash points per document are exhaustive.",
      "Trusted: sys.monitoring event delivery; the independent regex scan for declared dimensions (applied only when unambiguous); hang = budget 50*t0+50000 ticks exceeded and again at 20x.",
      "deterministic simulation of the disk (torn/edited/flipped files in SimFS) with exhaustive crash-point sweep per document and a deterministic step clock for termination",
      "DESIGN.md section 4, C20", category="fault_enumeration")


check("C03",
      "Seeded search over operation histories: 1-40 public mutator calls (all flag settings, seeded targets; ~8% deliberately inadmissible arguments as the fault dimension) on seeded start trees; after EVERY step the raw arborescence, iterator agreement, the leaf-taxon multiset rule and - when an update was requested on a current encoding - bipartition freshness against a freshly encoded structural clone are checked. Randomised mutators draw from a recording SimRNG, object addresses are simulated, every call runs under the step clock so that a cycle shows up as a budget overrun.",
      "Trusted: the raw walk through _seed_node/_child_nodes/_parent_node/_edge; admissibility table taken from the docstrings (what they leave open is treated as inadmissible, for which only 'raises or completes and the tree is still well formed' is demanded); the structural clone is encoded by the library itself (differential for bitmask values).",
      "deterministic simulation: seeded operation/fault histories with a step invariant (reference = raw-structure model), simulated RNG/addresses/step clock",
      "DESIGN.md section 4, C03")
check("C04",
      "Seeded search over histories of structural edits interleaved with distance queries on three long-lived trees sharing a namespace and a leaf set that grows and shrinks during the history (spare namespace taxa grafted on / leaf taxa pruned from all three); every query is compared with split sets and per-split lengths recomputed from the raw walk of the CURRENT structures (so stale caches are caught without a separate rule), plus symmetry of value and of definedness, zero distance to a re-drawing, triangle inequality, refusal of foreign namespaces.",
      "Trusted: own split extraction from the raw walk (unifurcation chains and unrooted basal bifurcations merged, absent length = 0); numeric equality of weighted distances only when all non-root edges have lengths.",
      "deterministic simulation: seeded edit/query histories against an executable reference model (split sets from the raw structure)",
      "DESIGN.md section 4, C04")
check("C10",
      "Seeded search over histories (5-60 steps) of add/new/require/remove/discard/del/sort/reverse/clear/relabel/mutability/copy operations on a namespace and its copies (deep and shallow, sharing Taxon objects), against a reference model of (member order, bit per member, monotone counter, mutability, case rule); after every step the full state of every live namespace and a batch of bitmask/rendering/lookup queries are compared. Inadmissible operations must raise and change nothing.",
      "Trusted: the reference model (a few dozen lines); labels are alphanumeric so textual renderings parse unambiguously.",
      "deterministic simulation: seeded operation histories against a small executable reference model",
      "DESIGN.md section 4, C10")
check("C11",
      "Seeded search over histories of TreeList / TreeArray / CharacterMatrix / DataSet operations fed with trees and matrices built under foreign namespaces (overlapping, disjoint, case-variant labels, both import strategies, reads from string/stream/SimFS path); after every step the closure invariant over every live container and every removed tree, and for migrating/reading steps the equal-label/different-label rule.",
      "Trusted: 'equal labels' judged under the target namespace's case rule; documented refusals (label collisions under a case-insensitive target) are accepted.",
      "deterministic simulation: seeded operation histories with a closure step invariant, simulated file system",
      "DESIGN.md section 4, C11")
check("C12",
      "Seeded search over (object, copy route, mutation history): equality of identity-free canonical dumps at copy time, disjointness of reachable mutable objects outside the documented shared region, and non-interference - before every one of 3-25 mutations applied to source or copy the other side is dumped, afterwards the dump must be unchanged; attribute-bound annotations on the copy must follow the copy.",
      "Trusted: the generic __dict__ crawler (objects identified by their __dict__, caches skipped by name - list in the evidence); the depth table taken from the docstrings (printed in the evidence).",
      "deterministic simulation: seeded mutation histories on source/copy with a non-interference invariant over canonical object-graph dumps",
      "DESIGN.md section 4, C12")
check("C13",
      "Seeded search over sessions: 2-8 read calls through seeded routes (tree list, single tree by offsets, incremental read into empty / non-empty list, file iterator over one or several sources, tree array from one or several sources with burn-in, data set; string / stream with short reads / SimFS path) into ONE shared namespace, with lazily consumed file iterators advanced one tree at a time between the other calls (or abandoned midway); every delivery is compared with TreeList.get run alone; the namespace must hold no duplicate labels and stay usable afterwards.",
      "Trusted: TreeList.get(data=...) as the reference route (differential oracle); documents are generated valid; live iterators never see their namespace gain taxa (documented exclusion).",
      "deterministic simulation: seeded sessions with cooperatively stepped iterators and simulated streams/file system; differential oracle between read routes",
      "DESIGN.md section 4, C13")
check("C16",
      "Seeded search over histories of scoring calls (all flag combinations, several long-lived matrices whose cells are edited in place between calls, rotations, re-rootings) on ONE long-lived tree object; every score and per-character list is compared with a Sankoff dynamic programme over our own state tables on the raw tree, so any dependence on earlier calls shows up as a wrong value.",
      "Trusted: the Sankoff reference (unit costs, own IUPAC/standard tables).",
      "deterministic simulation: seeded call histories on one object against an executable reference (Sankoff DP)",
      "DESIGN.md section 4, C16")
check("C18",
      "Seeded search with the random source simulated: every simulator is called with a recording SimRNG (plain or adversarial: scripted extreme random() values), trip-wires on the process-global generators, and simulated object addresses; specification checks per statement (tip counts, distinct taxa, bifurcation, ultrametricity, coalescence not before divergence) and reproducibility: generator state restored, arguments rebuilt, another address layout - outputs and draw counts must be identical.",
      "Trusted: own checks on the raw tree; calls exceeding the step budget are abandoned, not judged.",
      "deterministic simulation: simulated RNG (recording/adversarial), global-RNG trip-wires and simulated addresses; replay from equal generator state",
      "DESIGN.md section 4, C18")
check("C19",
      "Seeded search over histories (3-30 steps) of concatenate / extend / add / replace / update / remove / discard / keep / fill / pack / subset / export operations on matrices of eight data types (continuous included; index lists unsorted and with repeats) with partially overlapping taxon sets, repeated labels and repeated objects, foreign-namespace and self arguments as faults; reference model = label -> list of symbols per matrix, compared row by row after every step; every call under the step clock, HANG reported only after a fresh replay of the history at 20x the budget.",
      "Trusted: the reference model; termination = budget of step-clock ticks (loop iterations and calls inside dendropy).",
      "deterministic simulation: seeded operation histories against a reference model, step clock for termination, simulated file system",
      "DESIGN.md section 4, C19")

def main():
    claimed = sorted(CHECKS)
    m = {
        "version": 1,
        "setup_cmd": "bin/check setup",
        "hooks": {
            "guard": "DENDROPY_VERIF",
            "enable": "no hooks were needed: every seam is a module attribute, class attribute or argument patched from /verif at run time (dsim/seams); checks import /repo/src directly (PYTHONPATH) so they always run the current working tree",
            "baseline_off_cmd": "cd /repo && /venv/bin/python -m pytest -ra -q -p no:cacheprovider --timeout=900 --continue-on-collection-errors",
            "source_commits": [],
            "add_only": True,
        },
        "engines": [{"name": "dsim", "path": "dsim/", "serves_properties": claimed,
                     "kind_free_text": "deterministic simulation with fault injection: one seed -> one plan (ops, schedule choices, faults) -> one replayable run; seeded scheduler (SimProc), simulated FS (SimFS), step clock (sys.monitoring), recording RNG (SimRNG); delta-debugging minimiser; replay files"}],
        "checks": [CHECKS[k] for k in claimed],
        "not_applicable": [{"property_id": k, "reason": v} for k, v in sorted(NA.items())],
        "notes": "All checks: exit 0 = held on everything explored (KNOWN-FINDING lines for entries of known_findings.json), exit 1 + 'VIOLATION property=<id> replay=<path>' for a violation not listed there, exit 2 = harness error (never a verdict). VERIF_SEED selects the seed; DSIM_SCALE scales run counts; DSIM_PROCS the worker count.",
    }
    with open(os.path.join(HERE, "MANIFEST.json"), "w") as f:
        json.dump(m, f, indent=1)
        f.write("\n")

if __name__ == "__main__":
    main()
