#!/venv/bin/python
"""Writes /verif/MANIFEST.json from the tables below (kept in one place so the
manifest is always valid and in step with dsim/driver.py)."""
import json, os, sys
HERE = os.path.dirname(os.path.dirname(os.path.abspath(__file__)))

NA = {
 "C01": "Pure function of tree shape, rooting flag and taxon->bit map; no schedule, fault, clock, RNG or operation history in the statement (quantifier: inputs, configurations). The one stateful facet - cached encodings going stale after an edit - is the last sentence of C03 and is checked there. Deterministic simulation has nothing to decide; input generation with an oracle would be a change of technique.",
 "C02": "Codec round trip as a function of (trees, writer options, reader options); the readers pull one character at a time from one sequential stream, so no I/O behaviour, schedule or fault can influence the result. What a crashed writer leaves behind is C20; route equivalence is C13.",
 "C05": "Frequencies, consensus characterisation and summaries are functions of the multiset of input trees, thresholds and settings (quantifier: inputs, configurations). Its only history-dependent ingredient (cache invalidation when more trees are merged) runs inside C06's machine A, whose oracle is differential, so exactness against the definitions is not decided by this technique family.",
 "C07": "Single-call postconditions of re-rooting operations as functions of (tree, target, flags); ties and midpoint-on-node coincidences are input classes, not schedules or faults. Well-formedness of the same operations under arbitrary histories is C03 (claimed).",
 "C08": "Single-call postconditions of pruning/extraction as functions of (tree, taxon subset, flags); agreement between API variants is a relation between pure functions.",
 "C09": "Codec round trip of character matrices as a function of (matrix, format, options); see C02. Crash points of the same formats are C20, routes C13.",
 "C14": "Path distances, MRCA and NJ/UPGMA are functions of a tree or of a distance matrix; 'provided the encoding is current' is a precondition, not a behaviour with a schedule or fault in it.",
 "C15": "Traversal order is a function of (tree shape, start node, filter); nothing for a simulator to decide. (C03's step invariant compares every iterator's node set with the raw walk after every operation, but defining-order exactness is a per-input property.)",
 "C17": "Node ages, the ultrametricity check and tree statistics are functions of (tree, precision, options).",
}

CHECKS = {}
def check(pid, text, note, technique, design_ref, category="exploration"):
    CHECKS[pid] = {
        "property_id": pid,
        "quick_cmd": "bin/check run %s --tier quick" % pid,
        "thorough_cmd": "bin/check run %s --tier thorough" % pid,
        "evidence_file": "evidence/%s.json" % pid,
        "replay_cmd_template": "bin/check replay {path}",
        "engine": "dsim",
        "level_claimed": {"category": category, "text": text, "design_ref": design_ref},
        "level_note": note,
        "technique": technique,
    }

check("C06",
      "Seeded search over schedules and operation histories. Machine B runs the real sumtrees.main() in-process with worker processes, multiprocessing queues/lock, pickling, cpu_count, clock and file system simulated; every synchronisation point is a scheduling decision drawn from the run's choice stream (ideal and faithful queue models run separately) and the parallel summary is compared with the serial run of the same argv; deadlock/no-progress is reported. Machine A drives TreeArray shards through seeded add/merge/query histories against a reference built serially. A clean batch is sampling evidence, not proof.",
      "Trusted: the serial run / one-at-a-time TreeArray as reference (differential oracle); workers are threads of one interpreter, isolation approximated by pickling at queue boundaries; the faithful queue model encodes two documented CPython multiprocessing.Queue behaviours (feeder delay, reader-lock contention), FIFO otherwise.",
      "deterministic simulation: seeded scheduler over baton-passing worker threads + simulated queues/FS/clock; differential oracle vs serial run; seeded merge histories vs reference model",
      "DESIGN.md section 4, C06")
check("C20",
      "Fault enumeration + seeded fault injection on the simulated disk: for every seeded valid document (templates and documents written by the library's own writers into SimFS) EVERY truncation offset is read back (complete crash-point sweep per document), plus seeded single/double edits, bit flips and token soup; each read runs under a deterministic step clock (sys.monitoring) so non-termination is a budget overrun confirmed at 20x. The choice of documents is sampled, the crash points per document are exhaustive.",
      "Trusted: sys.monitoring event delivery; the independent regex scan for declared dimensions (applied only when unambiguous); hang = budget 50*t0+50000 ticks exceeded and again at 20x.",
      "deterministic simulation of the disk (torn/edited/flipped files in SimFS) with exhaustive crash-point sweep per document and a deterministic step clock for termination",
      "DESIGN.md section 4, C20", category="fault_enumeration")

def main():
    claimed = sorted(CHECKS)
    m = {
        "version": 1,
        "setup_cmd": "bin/check setup",
        "hooks": {
            "guard": "DENDROPY_VERIF",
            "enable": "no hooks were needed: every seam is a module attribute, class attribute or argument patched from /verif at run time (dsim/seams); checks import /repo/src directly (PYTHONPATH) so they always run the current working tree",
            "baseline_off_cmd": "cd /repo && /venv/bin/python -m pytest -ra -q -p no:cacheprovider --timeout=900 --continue-on-collection-errors",
            "source_commits": [],
            "add_only": True,
        },
        "engines": [{"name": "dsim", "path": "dsim/", "serves_properties": claimed,
                     "kind_free_text": "deterministic simulation with fault injection: one seed -> one plan (ops, schedule choices, faults) -> one replayable run; seeded scheduler (SimProc), simulated FS (SimFS), step clock (sys.monitoring), recording RNG (SimRNG); delta-debugging minimiser; replay files"}],
        "checks": [CHECKS[k] for k in claimed],
        "not_applicable": [{"property_id": k, "reason": v} for k, v in sorted(NA.items())],
        "notes": "All checks: exit 0 = held on everything explored (KNOWN-FINDING lines for entries of known_findings.json), exit 1 + 'VIOLATION property=<id> replay=<path>' for a violation not listed there, exit 2 = harness error (never a verdict). VERIF_SEED selects the seed; DSIM_SCALE scales run counts; DSIM_PROCS the worker count.",
    }
    with open(os.path.join(HERE, "MANIFEST.json"), "w") as f:
        json.dump(m, f, indent=1)
        f.write("\n")

if __name__ == "__main__":
    main()
