#!/bin/bash
# usage: try1.sh <seeded-name>  -> applies to /repo, runs quick check, restores
n=$1; prop=${n%%-*}
cd /repo; git diff --quiet || { echo dirty; exit 2; }
git apply /verif/seeded/$n/patch.diff || exit 3
cd /verif; timeout 2400 bin/check run $prop --tier quick > /tmp/t1.out 2>/tmp/t1.err; RC=$?
git -C /repo checkout -- .
echo "$n exit=$RC $(grep -c '^VIOLATION' /tmp/t1.out) violations; $(grep 'dsim. violation' /tmp/t1.err | sed -E 's/.*violation (\{[^}]*\}).*/\1/' | head -3 | tr '\n' ' ')"
