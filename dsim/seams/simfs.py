"""In-memory file system and file objects: the simulated disk.

``SimFS.open`` is injected as the name ``open`` into the globals of the library
modules that open paths; ``SimFile`` objects are handed in directly where the
library takes a stream.  Every decision a SimFile makes (how many characters a
short read returns) comes from the run PRNG handed in by the machine, never
from anywhere else.
"""
import io


class SimFile(object):
    """Text file object over a string.  Supports what the library uses:
    read(n), read(), readline, iteration, write, close, context manager, name.
    """

    def __reduce_ex__(self, protocol):
        # like a real file object: cannot be sent to another process
        raise TypeError("cannot pickle 'SimFile' instances")

    def __init__(self, fs, path, text, mode="r", short_reads=None, stats=None):
        self.fs = fs
        self.name = path
        self.mode = mode
        self._buf = text
        self._pos = 0
        self.closed = False
        self._short = short_reads  # callable(n) -> 1..n, or None
        self._out = [] if ("w" in mode or "a" in mode) else None
        self.stats = stats if stats is not None else {}
        self.reads = 0
        self.reads_after_close = 0

    # -- reading -------------------------------------------------------
    def _chk(self):
        if self.closed:
            self.reads_after_close += 1
            if self.fs is not None:
                self.fs.reads_after_close += 1
            raise ValueError("I/O operation on closed file.")

    def readable(self):
        return self._out is None

    def writable(self):
        return self._out is not None

    def seekable(self):
        return False

    def read(self, n=-1):
        self._chk()
        self.reads += 1
        if n is None or n < 0:
            r = self._buf[self._pos:]
            self._pos = len(self._buf)
            return r
        if n > 1 and self._short is not None:
            n2 = self._short(n)
            if n2 != n:
                self.stats["short_read"] = self.stats.get("short_read", 0) + 1
            n = n2
        r = self._buf[self._pos:self._pos + n]
        self._pos += len(r)
        return r

    def readline(self, limit=-1):
        self._chk()
        i = self._buf.find("\n", self._pos)
        if i < 0:
            r = self._buf[self._pos:]
            self._pos = len(self._buf)
        else:
            r = self._buf[self._pos:i + 1]
            self._pos = i + 1
        return r

    def readlines(self):
        out = []
        while True:
            l = self.readline()
            if not l:
                return out
            out.append(l)

    def __iter__(self):
        return self

    def __next__(self):
        l = self.readline()
        if not l:
            raise StopIteration
        return l

    # -- writing -------------------------------------------------------
    def write(self, s):
        if self.closed:
            raise ValueError("I/O operation on closed file.")
        if self._out is None:
            raise io.UnsupportedOperation("not writable")
        self._out.append(s)
        if self.fs is not None:
            self.fs._commit(self.name, self.mode, "".join(self._out))
        return len(s)

    def flush(self):
        pass

    def close(self):
        if not self.closed:
            self.closed = True
            if self.fs is not None:
                self.fs.closes += 1

    def __enter__(self):
        return self

    def __exit__(self, *a):
        self.close()
        return False


class SimFS(object):

    def __init__(self):
        self.files = {}
        self.base = {}
        self.opens = 0
        self.closes = 0
        self.reads_after_close = 0
        self.short_reads = None
        self.stats = {}
        self.unreadable = set()
        self.handles = []

    def put(self, path, text):
        self.files[path] = text

    def exists(self, path):
        return path in self.files

    def _commit(self, path, mode, text):
        if "a" in mode:
            self.files[path] = self.base.get(path, "") + text
        else:
            self.files[path] = text

    def open(self, path, mode="r", *args, **kwargs):
        path = str(path)
        m = mode.replace("U", "").replace("t", "")
        if "b" in m:
            raise ValueError("SimFS: binary mode not modelled: %r" % mode)
        if "U" in mode:
            # python 3.11+ rejects 'U'; mimic it so the library's fallback runs
            raise ValueError("invalid mode: %r" % mode)
        if m in ("r", "r+"):
            if path in self.unreadable:
                raise PermissionError(13, "Permission denied", path)
            if path not in self.files:
                raise FileNotFoundError(2, "No such file or directory", path)
            self.opens += 1
            f = SimFile(self, path, self.files[path], "r", self.short_reads, self.stats)
            self.handles.append(f)
            return f
        if m in ("w", "a", "w+", "a+"):
            self.opens += 1
            self.base[path] = self.files.get(path, "") if "a" in m else ""
            if "w" in m:
                self.files[path] = ""
            f = SimFile(self, path, "", m[0], None, self.stats)
            self.handles.append(f)
            return f
        raise ValueError("SimFS: mode %r" % mode)


class patched_open(object):
    """Context manager: inject ``open`` (and optionally other names) into the
    globals of the given modules, restore on exit."""

    def __init__(self, fs, modules, extra=None):
        self.fs = fs
        self.modules = modules
        self.extra = extra or {}
        self._saved = []

    def __enter__(self):
        for m in self.modules:
            d = m.__dict__
            self._saved.append((d, "open", d.get("open", _MISSING)))
            d["open"] = self.fs.open
            for k, v in self.extra.items():
                self._saved.append((d, k, d.get(k, _MISSING)))
                d[k] = v
        return self.fs

    def __exit__(self, *a):
        for d, k, v in reversed(self._saved):
            if v is _MISSING:
                d.pop(k, None)
            else:
                d[k] = v
        self._saved = []
        return False


_MISSING = object()
