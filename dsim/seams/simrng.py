"""SimRNG: the random source handed to the library as ``rng=``.

A random.Random subclass seeded from the run PRNG that counts draws and, in
adversarial mode, substitutes scripted extreme values for random() at seeded
draw positions (this is what expovariate, gauss and weighted_choice consume),
to drive rare branches.  The draw counter and the script are part of
getstate()/setstate(), so "equal generator states" means equal future output.
``Tripwire`` detects any use of the process-global generators.
"""
import random

EXTREMES = (0.0, 1e-9, 0.5, 1.0 - 1e-9, 1e-3, 0.999, 1.0 - 2.0 ** -53)      # the last one: the largest value random() can return


class SimRNG(random.Random):

    def __init__(self, seed, adversarial=0.0):
        random.Random.__init__(self, seed)
        self.n_random = 0
        self.n_bits = 0
        self.n_scripted = 0
        self._adv = adversarial
        # the script is derived from a private generator so that it is a pure function of (seed, draw index)
        self._script_seed = seed

    def _scripted(self, idx):
        if not self._adv:
            return None
        h = random.Random((self._script_seed << 20) ^ idx)
        if h.random() < self._adv:
            return EXTREMES[h.randrange(len(EXTREMES))]
        return None

    def random(self):
        self.n_random += 1
        v = random.Random.random(self)
        s = self._scripted(self.n_random)
        if s is not None:
            self.n_scripted += 1
            return s
        return v

    def getrandbits(self, k):
        self.n_bits += 1
        return random.Random.getrandbits(self, k)

    def getstate(self):
        return (random.Random.getstate(self), self.n_random, self.n_bits, self.n_scripted)

    def setstate(self, state):
        random.Random.setstate(self, state[0])
        self.n_random, self.n_bits, self.n_scripted = state[1], state[2], state[3]

    @property
    def draws(self):
        return self.n_random + self.n_bits


class Tripwire(object):
    """Context manager: records whether the process-global generators were
    touched inside the block."""

    def __init__(self):
        from dendropy.utility import GLOBAL_RNG
        self.global_rng = GLOBAL_RNG
        self.tripped = []

    def __enter__(self):
        self._g = self.global_rng.getstate()
        self._m = random.getstate()
        return self

    def __exit__(self, *a):
        if self.global_rng.getstate() != self._g:
            self.tripped.append("dendropy.utility.GLOBAL_RNG")
            self.global_rng.setstate(self._g)
        if random.getstate() != self._m:
            self.tripped.append("module random")
            random.setstate(self._m)
        return False
