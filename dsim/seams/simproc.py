"""SimProc: deterministic scheduler for "processes".

Tasks are real threads, but exactly one holds the baton at any time; every
synchronisation point of the system under test (Process.start, Queue.put/get/
get_nowait, Lock.acquire/release, task exit) calls ``yield_point``; the
scheduler then picks the next runnable task from the *choice stream* of the
plan.  Nothing else decides who runs, so one choice list is one exactly
repeatable interleaving.

Choice stream semantics: at every decision the runnable tasks are ordered
[current task if runnable] + others by name; the next integer k of the stream
selects runnable[k % n].  So 0 means "no pre-emption"; when the stream is
exhausted every further decision is 0.  This is what makes schedules
minimisable: replacing a choice by 0 or deleting it is always executable.
"""
import pickle
import queue as _queue
import threading


class Deadlock(BaseException):
    pass


class SchedulerLimit(BaseException):
    pass


class TaskKilled(BaseException):
    pass


class _Task(object):
    def __init__(self, name, fn):
        self.name = name
        self.fn = fn
        self.go = threading.Semaphore(0)
        self.state = "new"      # new, runnable, blocked, done
        self.pred = None
        self.thread = None
        self.exc = None
        self.killed = False
        self.starved_until = 0


class Scheduler(object):

    def __init__(self, choices, rec=None, max_decisions=10000, starvation=None):
        self.choices = list(choices)
        self.ci = 0
        self.rec = rec
        self.tasks = {}
        self.order = []
        self.current = None
        self.decisions = 0
        self.max_decisions = max_decisions
        self.now = 0                 # logical time = number of decisions (plus jumps)
        self.timers = []             # logical times at which some predicate may become true
        self.preemptions = 0
        self.trace = []
        self.deadlocked = False
        self.main = None
        self.draining = False

    # -- choice stream ----------------------------------------------------
    def choice(self, n, kind="sched"):
        """Next integer of the stream, reduced modulo n (0 when exhausted)."""
        if n <= 1:
            return 0
        if self.ci < len(self.choices):
            k = self.choices[self.ci] % n
        else:
            k = 0
        self.ci += 1
        return k

    # -- tasks --------------------------------------------------------------
    def run_main(self, fn):
        """Run fn as the main task in the calling thread."""
        t = _Task("main", fn)
        t.state = "runnable"
        t.thread = threading.current_thread()
        self.tasks["main"] = t
        self.order.append("main")
        self.current = t
        self.main = t
        try:
            return fn()
        finally:
            t.state = "done"
            # let every remaining task run to completion or kill it
            self._drain()

    def spawn(self, name, fn):
        t = _Task(name, fn)
        self.tasks[name] = t
        self.order.append(name)

        def body():
            t.go.acquire()
            try:
                if not t.killed:
                    fn()
            except TaskKilled:
                pass
            except BaseException as e:  # noqa
                t.exc = e
            finally:
                t.state = "done"
                self._handoff_from_finished(t)
        t.thread = threading.Thread(target=body, name=name, daemon=True)
        t.state = "runnable"
        t.thread.start()
        return t

    def kill(self, name):
        t = self.tasks.get(name)
        if t is None or t.state == "done":
            return
        t.killed = True

    # -- core ---------------------------------------------------------------
    def _runnable(self):
        out = []
        for n in self.order:
            t = self.tasks[n]
            if t.state == "runnable":
                out.append(t)
            elif t.state == "blocked" and (t.killed or t.pred()):
                out.append(t)
        return out

    def _pick(self, kind):
        """Choose the next task to run; returns None if nothing can run."""
        while True:
            run = self._runnable()
            if run:
                break
            future = [x for x in self.timers if x > self.now]
            if not future:
                return None
            self.now = min(future)   # nothing runnable: jump logical time to the next timer
        cur = self.current
        if cur in run:
            run.remove(cur)
            run.insert(0, cur)
        k = self.choice(len(run), kind)
        nxt = run[k]
        self.decisions += 1
        self.now += 1
        if self.rec is not None:
            self.rec.sched += 1
            self.rec.ev("sched", nxt.name, kind)
        if run[0] is cur and k != 0:
            self.preemptions += 1
        self.trace.append(nxt.name)
        if self.decisions > self.max_decisions:
            raise SchedulerLimit("more than %d scheduling decisions" % self.max_decisions)
        return nxt

    def yield_point(self, kind, pred=None):
        """Called by the running task at a synchronisation point.  With pred the
        task blocks until pred() is true."""
        cur = self.current
        if self.draining or (cur.killed and cur is not self.main):
            raise TaskKilled()
        if pred is not None:
            # the predicate is re-evaluated at every decision until the task is
            # actually resumed: another task may consume what it waits for
            cur.state = "blocked"
            cur.pred = pred
        else:
            cur.state = "runnable"
        nxt = self._pick(kind)
        if nxt is None:
            self.deadlocked = True
            cur.state = "runnable"
            raise Deadlock("no runnable task at %s (blocked: %s)" % (
                kind, [n for n in self.order if self.tasks[n].state == "blocked"]))
        if nxt is cur:
            cur.state = "runnable"
            return
        self.current = nxt
        nxt.state = "runnable"
        nxt.go.release()
        cur.go.acquire()
        # resumed
        if self.deadlocked and cur is self.main:
            raise Deadlock("no runnable task (main woken to report)")
        if cur.killed and cur is not self.main:
            raise TaskKilled()
        cur.state = "runnable"

    def _handoff_from_finished(self, t):
        if self.draining:
            return      # main is finished; _drain releases the remaining tasks one at a time
        try:
            nxt = self._pick("exit")
        except SchedulerLimit:
            nxt = self.main if self.main.state != "done" else None
            if nxt is not None:
                self.deadlocked = True
        if nxt is None:
            # nobody can run: wake main (if it still waits) so that it reports a deadlock
            if self.main is not None and self.main.state == "blocked":
                self.deadlocked = True
                self.current = self.main
                self.main.go.release()
            return
        self.current = nxt
        nxt.state = "runnable"
        nxt.go.release()

    def _drain(self):
        """Main is finished: kill whatever is left so no thread outlives the run."""
        self.draining = True
        for n in self.order:
            t = self.tasks[n]
            if t is self.main:
                continue
            if t.state != "done":
                t.killed = True
        # run killed tasks one at a time until all are done
        for n in self.order:
            t = self.tasks[n]
            if t is self.main or t.state == "done":
                continue
            self.current = t
            t.go.release()
            t.thread.join(10)

    def add_timer(self, at):
        self.timers.append(at)


# ---------------------------------------------------------------------------
# multiprocessing look-alikes


class SimLock(object):
    def __init__(self, sched, name="lock"):
        self.sched = sched
        self.owner = None
        self.name = name

    def acquire(self, block=True, timeout=None):
        s = self.sched
        s.yield_point("lock.acquire", lambda: self.owner is None)
        self.owner = s.current.name
        return True

    def release(self):
        self.owner = None
        self.sched.yield_point("lock.release")

    def __enter__(self):
        self.acquire()
        return self

    def __exit__(self, *a):
        self.release()


class SimQueue(object):
    """multiprocessing.Queue look-alike.

    model="ideal": FIFO, a put is visible to every reader immediately.
    model="faithful": two documented behaviours of CPython's
    multiprocessing.Queue are added: (F2) put() hands the object to a feeder
    thread, so it becomes visible to readers only a scheduler-chosen number of
    decisions later; (F3) get(block=False) raises Empty when another process
    holds the reader lock.  Objects cross the queue as pickles.
    """

    def __init__(self, sched, name, model="ideal", rec=None, max_delay=6):
        self.sched = sched
        self.name = name
        self.model = model
        self.rec = rec
        self.items = []   # (visible_at, pickled)
        self.rlock_holder = None
        self.max_delay = max_delay

    def _visible(self):
        return [it for it in self.items if it[0] <= self.sched.now]

    def put(self, obj, block=True, timeout=None):
        s = self.sched
        try:
            data = pickle.dumps(obj, protocol=pickle.HIGHEST_PROTOCOL)
        except Exception:
            # multiprocessing.Queue.put() returns at once; it is the feeder thread that pickles the object, and when that
            # fails it prints a traceback and goes on: the item never arrives, the putting process never learns
            if self.rec is not None:
                self.rec.fault("F6_unpicklable_item_lost")
            s.yield_point("q.put:" + self.name)
            return
        delay = 0
        if self.model == "faithful":
            delay = s.choice(self.max_delay + 1, "feeder")
            if delay and self.rec is not None:
                self.rec.fault("F2_feeder_delay")
        at = s.now + delay
        if self.items and self.items[-1][0] > at:
            at = self.items[-1][0]      # one feeder thread, one pipe: visibility is FIFO
        self.items.append((at, data))
        if delay:
            s.add_timer(at)
        s.yield_point("q.put:" + self.name)

    def get(self, block=True, timeout=None):
        s = self.sched
        if not block:
            return self.get_nowait()
        s.yield_point("q.get:" + self.name, lambda: self.rlock_holder is None and bool(self._visible()))
        it = self._visible()[0]
        self.items.remove(it)
        return pickle.loads(it[1])

    def get_nowait(self):
        s = self.sched
        s.yield_point("q.get_nowait:" + self.name)
        if self.model == "faithful":
            if self.rlock_holder is not None:
                if self.rec is not None:
                    self.rec.fault("F3_reader_lock_contention")
                raise _queue.Empty
            self.rlock_holder = s.current.name
            try:
                s.yield_point("q.recv:" + self.name)
                vis = self._visible()
                if not vis:
                    if self.items and self.rec is not None:
                        self.rec.fault("F2_empty_seen_while_item_in_flight")
                    raise _queue.Empty
                it = vis[0]
                self.items.remove(it)
            finally:
                self.rlock_holder = None
            return pickle.loads(it[1])
        vis = self._visible()
        if not vis:
            raise _queue.Empty
        it = vis[0]
        self.items.remove(it)
        return pickle.loads(it[1])

    def empty(self):
        return not self._visible()

    def qsize(self):
        return len(self.items)

    def close(self):
        pass

    def join_thread(self):
        pass

    def cancel_join_thread(self):
        pass
