"""Deterministic step clock: logical time = number of JUMP and PY_START events
executed inside code objects whose file lives under the repository source tree.

The clock turns "never hangs" into "finishes within a budget of simulated
steps".  It is driven by sys.monitoring (PEP 669), so it sees every loop
iteration and every call of library code, needs no hook in the library and is
a pure function of the executed code path (no wall clock anywhere).
"""
import sys

_mon = sys.monitoring
TOOL_ID = 3
_E = _mon.events


class StepBudgetExceeded(BaseException):
    """Raised *into* the running library code when the budget of a guarded call
    is used up.  Derives from BaseException and is re-raised at every further
    event until the guarded call has unwound, because the library has bare
    ``except:`` clauses that would swallow a single raise."""


class StepClock(object):

    def __init__(self, prefix):
        self.prefix = prefix
        # [ticks, limit]
        self._s = [0, float("inf")]
        self._installed = False
        self._is_repo = {}
        self.last_site = None

    # ------------------------------------------------------------------
    def install(self):
        if self._installed:
            return
        s = self._s
        is_repo = self._is_repo
        prefix = self.prefix
        DISABLE = _mon.DISABLE
        clock = self

        def _classify(code):
            r = code.co_filename.startswith(prefix)
            is_repo[code] = r
            return r

        def on_jump(code, offset, dest):
            r = is_repo.get(code)
            if r is None:
                r = _classify(code)
            if not r:
                return DISABLE
            s[0] += 1
            if s[0] > s[1]:
                clock.last_site = (code.co_filename, code.co_name)
                raise StepBudgetExceeded()

        def on_start(code, offset):
            r = is_repo.get(code)
            if r is None:
                r = _classify(code)
            if not r:
                return DISABLE
            s[0] += 1
            if s[0] > s[1]:
                clock.last_site = (code.co_filename, code.co_name)
                raise StepBudgetExceeded()

        _mon.use_tool_id(TOOL_ID, "dsim-stepclock")
        _mon.register_callback(TOOL_ID, _E.JUMP, on_jump)
        _mon.register_callback(TOOL_ID, _E.PY_START, on_start)
        _mon.set_events(TOOL_ID, _E.JUMP | _E.PY_START)
        self._installed = True

    def uninstall(self):
        if not self._installed:
            return
        _mon.set_events(TOOL_ID, 0)
        _mon.register_callback(TOOL_ID, _E.JUMP, None)
        _mon.register_callback(TOOL_ID, _E.PY_START, None)
        _mon.free_tool_id(TOOL_ID)
        self._installed = False

    # ------------------------------------------------------------------
    @property
    def ticks(self):
        return self._s[0]

    def guard(self, budget):
        return _Guard(self, budget)


class _Guard(object):
    """``with clock.guard(n) as g: ...`` — the body may use at most n ticks.
    ``g.used`` is the number of ticks consumed; ``g.expired`` tells whether the
    budget ran out (the StepBudgetExceeded is swallowed by the guard)."""

    def __init__(self, clock, budget):
        self.clock = clock
        self.budget = budget
        self.used = 0
        self.expired = False
        self.site = None
        self.stack = None

    def __enter__(self):
        s = self.clock._s
        self._t0 = s[0]
        self._outer = s[1]
        self.clock.last_site = None
        s[1] = s[0] + self.budget if self.budget is not None else float("inf")
        return self

    def __exit__(self, et, ev, tb):
        s = self.clock._s
        s[1] = self._outer
        self.used = s[0] - self._t0
        if tb is not None:
            self.stack = self._frames(tb)
        if et is not None and issubclass(et, StepBudgetExceeded):
            self.expired = True
            self.site = self.clock.last_site
            return True
        # the budget may have expired although some other exception (raised
        # while unwinding) reaches us first
        if self.used > (self.budget if self.budget is not None else float("inf")):
            self.expired = True
            self.site = self.clock.last_site
            return True
        return False


def _frames(self, tb):
    import os
    prefix = self.clock.prefix
    out = []
    while tb is not None:
        co = tb.tb_frame.f_code
        if co.co_filename.startswith(prefix):
            out.append("%s:%s" % (os.path.basename(co.co_filename)[:-3], co.co_name))
        tb = tb.tb_next
    return out


_Guard._frames = _frames

_CLOCK = None


def get_clock():
    """Process-wide clock for the repository source tree (installed once)."""
    global _CLOCK
    if _CLOCK is None:
        import dendropy
        import os
        prefix = os.path.dirname(os.path.abspath(dendropy.__file__))
        _CLOCK = StepClock(prefix)
        _CLOCK.install()
        import atexit
        atexit.register(_CLOCK.uninstall)
    return _CLOCK
