"""SimAddr: simulated object addresses.

Taxon, Node, Edge, Tree, TaxonNamespace (and a few more) hash by ``id(self)``,
so the iteration order of every set or dict keyed by them depends on where the
allocator happened to put the objects - a source of nondeterminism the
simulator must own.  Inside ``SimAddresses(seed)`` the ``__hash__`` of those
classes returns a *simulated address* drawn from a seeded stream at the
object's first hashing.  One seed is one exactly repeatable layout; running the
same call under two seeds is the deterministic counterpart of "the objects
were allocated somewhere else".
"""
import random


def _classes():
    import dendropy
    from dendropy.datamodel import basemodel
    out = [dendropy.Taxon, dendropy.Node, dendropy.Edge, dendropy.Tree, dendropy.TaxonNamespace, dendropy.TreeList,
           dendropy.DataSet]
    for n in ("Annotation",):
        c = getattr(basemodel, n, None)
        if c is not None and "__hash__" in c.__dict__:
            out.append(c)
    return out


class SimAddresses(object):

    def __init__(self, seed):
        self.rng = random.Random(seed)
        self.saved = []
        self.side = {}
        self.count = 0

    def _next(self):
        self.count += 1
        return self.rng.getrandbits(44) << 4

    def __enter__(self):
        mgr = self

        def simhash(obj):
            try:
                return obj.__dict__["_dsim_addr"]
            except KeyError:
                a = mgr._next()
                obj.__dict__["_dsim_addr"] = a
                return a
            except AttributeError:
                k = id(obj)
                ent = mgr.side.get(k)
                if ent is None or ent[0] is not obj:
                    ent = (obj, mgr._next())
                    mgr.side[k] = ent
                return ent[1]
        for c in _classes():
            self.saved.append((c, c.__dict__.get("__hash__")))
            c.__hash__ = simhash
        return self

    def __exit__(self, *a):
        for c, h in self.saved:
            if h is None:
                try:
                    del c.__hash__
                except AttributeError:
                    pass
            else:
                c.__hash__ = h
        self.saved = []
        self.side.clear()
        return False
