"""Parallel driver, known-findings handling, evidence, replay, CLI."""
import faulthandler
import hashlib
import importlib
import json
import multiprocessing
import os
import subprocess
import sys
import time
import traceback
from concurrent.futures import ProcessPoolExecutor

from . import engine
from .engine import jdump, sig_key

VERIF = os.path.dirname(os.path.dirname(os.path.abspath(__file__)))
KNOWN = os.path.join(VERIF, "known_findings.json")

# property -> machine module names
PROPERTY_MACHINES = {
    "C03": ["c03"],
    "C04": ["c04"],
    "C06": ["c06a", "c06b"],
    "C10": ["c10"],
    "C11": ["c11"],
    "C12": ["c12"],
    "C13": ["c13"],
    "C16": ["c16"],
    "C18": ["c18"],
    "C19": ["c19"],
    "C20": ["c20"],
}

LEVELS = {"C20": "fault_enumeration"}

_MACHINES = {}


def get_machine(name):
    if name not in _MACHINES:
        mod = importlib.import_module("dsim.machines." + name.split(":")[0])
        _MACHINES[name] = mod.make(name)
    return _MACHINES[name]


def machines_for(prop, only=None):
    out = []
    for mname in PROPERTY_MACHINES[prop]:
        if only and not any(o.split(":")[0] == mname for o in only):
            continue
        mod = importlib.import_module("dsim.machines." + mname)
        for n in getattr(mod, "VARIANTS", [mname]):
            out.append(get_machine(n))
    return out


def log(msg):
    sys.stderr.write("[dsim] %s\n" % msg)
    sys.stderr.flush()


# ----------------------------------------------------------------------------
# worker side

MAX_PLANS_PER_SIG = 2


def _worker_init():
    try:
        import resource
        lim = int(os.environ.get("DSIM_RLIMIT_AS_GB", "6")) << 30
        resource.setrlimit(resource.RLIMIT_AS, (lim, lim))
    except Exception:
        pass
    import gc
    gc.disable()


def run_batch(mname, seed, tier, indices, watchdog):
    machine = get_machine(mname)
    faulthandler.dump_traceback_later(watchdog, exit=True)
    import gc
    try:
        agg = {"runs": 0, "events": 0, "ticks": 0, "steps": 0, "sched": 0, "faults": {}, "probes": {},
               "keys": set(), "digests": {}, "outs": {}, "violations": {}, "viol_counts": {}, "nviol_runs": 0}
        for i in indices:
            rng = engine.run_rng(seed, mname, i)
            plan = machine.gen(rng, tier)
            plan["machine"] = mname
            out = engine.execute(machine, plan)
            agg["runs"] += 1
            agg["events"] += out["nevents"]
            agg["ticks"] += out["ticks"]
            agg["steps"] += out["steps"]
            agg["sched"] += out["sched"]
            for k, v in out["faults"].items():
                agg["faults"][k] = agg["faults"].get(k, 0) + v
            for k, v in out["probes"].items():
                agg["probes"][k] = agg["probes"].get(k, 0) + v
            agg["keys"].update(out["keys"])
            if out["violations"]:
                agg["nviol_runs"] += 1
            else:
                # the determinism self-test compares violation-free runs; runs with
                # violations are re-executed from their replay file in a fresh
                # interpreter (same violation and same digest required) instead
                agg["digests"][i] = out["digest"]
                if getattr(machine, "cross_interpreter_outputs", False):
                    agg["outs"][i] = out["outs"]
            seen_here = set()
            for v in out["violations"]:
                k = sig_key(v["signature"])
                agg["viol_counts"][k] = agg["viol_counts"].get(k, 0) + 1
                if k in seen_here:
                    continue
                seen_here.add(k)
                lst = agg["violations"].setdefault(k, [])
                if len(lst) < MAX_PLANS_PER_SIG:
                    lst.append({"run": i, "plan": plan, "violation": v})
            if agg["runs"] % 20 == 0:
                gc.collect()
        agg["keys"] = sorted(agg["keys"])
        return agg
    finally:
        faulthandler.cancel_dump_traceback_later()


# ----------------------------------------------------------------------------
# known findings


def load_known():
    if not os.path.exists(KNOWN):
        return []
    with open(KNOWN) as f:
        return json.load(f).get("findings", [])


def match_known(known, prop, sig):
    for k in known:
        if k.get("status") != "finding" or k.get("property") != prop:
            continue
        ks = k.get("signature", {})
        if all(sig.get(a) == b for a, b in ks.items()):
            return k
    return None


# ----------------------------------------------------------------------------


class HarnessError(Exception):
    pass


def explore(machine, seed, tier, nruns, nproc, first=0):
    mname = machine.name
    bsz = machine.batch
    indices = list(range(first, first + nruns))
    batches = [indices[i:i + bsz] for i in range(0, len(indices), bsz)]
    watchdog = float(os.environ.get("DSIM_BATCH_WATCHDOG", machine.__dict__.get("watchdog", getattr(machine, "watchdog", 600))))
    results = []
    t0 = time.time()
    if nproc <= 1:
        _worker_init_light()
        for b in batches:
            results.append(run_batch(mname, seed, tier, b, watchdog))
    else:
        ctx = multiprocessing.get_context("fork")
        with ProcessPoolExecutor(max_workers=nproc, mp_context=ctx, initializer=_worker_init) as ex:
            futs = [ex.submit(run_batch, mname, seed, tier, b, watchdog) for b in batches]
            for f in futs:
                try:
                    results.append(f.result(timeout=watchdog + 60))
                except Exception as e:
                    for g in futs:
                        g.cancel()
                    raise HarnessError("batch of machine %s failed: %s: %s" % (mname, type(e).__name__, e))
    wall = time.time() - t0
    tot = {"runs": 0, "events": 0, "ticks": 0, "steps": 0, "sched": 0, "faults": {}, "probes": {}, "keys": set(),
           "digests": {}, "outs": {}, "violations": {}, "viol_counts": {}, "nviol_runs": 0, "wall": wall}
    for r in results:
        for k in ("runs", "events", "ticks", "steps", "sched", "nviol_runs"):
            tot[k] += r[k]
        for k, v in r["faults"].items():
            tot["faults"][k] = tot["faults"].get(k, 0) + v
        for k, v in r["probes"].items():
            tot["probes"][k] = tot["probes"].get(k, 0) + v
        tot["keys"].update(r["keys"])
        tot["digests"].update(r["digests"])
        tot["outs"].update(r.get("outs", {}))
        for k, v in r["viol_counts"].items():
            tot["viol_counts"][k] = tot["viol_counts"].get(k, 0) + v
        for k, lst in r["violations"].items():
            cur = tot["violations"].setdefault(k, [])
            for x in lst:
                if len(cur) < MAX_PLANS_PER_SIG:
                    cur.append(x)
    return tot


def _worker_init_light():
    import gc
    gc.disable()


def _digests_subprocess(machine, seed, tier, pick, hashseed):
    env = dict(os.environ)
    env["PYTHONHASHSEED"] = hashseed
    env["DSIM_NO_REEXEC"] = "1"
    cmd = [sys.executable, os.path.join(VERIF, "bin", "check"), "digests", machine.name, str(seed), tier,
           ",".join(str(i) for i in reversed(pick))]
    p = subprocess.run(cmd, env=env, capture_output=True, text=True, timeout=1800)
    if p.returncode != 0:
        raise HarnessError("self-test subprocess failed (%d): %s" % (p.returncode, p.stderr[-2000:]))
    return json.loads(p.stdout.strip().splitlines()[-1])


def selftest_digests(machine, seed, tier, digests, sample, hashseed="4242", outs=None, mismatches=None):
    """Re-execute a sample of runs in a fresh interpreter under another PYTHONHASHSEED, in reverse order, single
    process.  Run digests must agree (else the harness is nondeterministic: exit 2).  For machines whose property is
    reproducibility, the recorded library outputs must agree too: a difference there is a violation of the property
    (appended to ``mismatches`` as (run, step index))."""
    idx = sorted(digests)[:]
    if not idx:
        return 0
    step = max(1, len(idx) // sample)
    pick = idx[::step][:sample]
    got = _digests_subprocess(machine, seed, tier, pick, hashseed)
    bad = [i for i in pick if got["digests"].get(str(i)) != digests[i]]
    if bad:
        raise HarnessError("harness nondeterministic: machine %s seed %d runs %s give different digests in a fresh interpreter "
                           "(PYTHONHASHSEED=%s)" % (machine.name, seed, bad[:10], hashseed))
    if outs is not None and mismatches is not None:
        for i in pick:
            a, b = outs.get(i), got["outs"].get(str(i))
            if a is None or b is None:
                continue
            for x, y in zip(a, b):
                if x != y:
                    mismatches.append((i, x[0]))
                    break
    return len(pick)


def write_replay(prop, machine, seed, run, plan, violation, digest):
    d = os.path.join(VERIF, "replays", prop)
    os.makedirs(d, exist_ok=True)
    key = sig_key(violation["signature"])
    h = hashlib.sha256(key.encode()).hexdigest()[:12]
    path = os.path.join(d, "%s-%s.json" % (machine.name.replace(":", "_"), h))
    doc = {"property": prop, "machine": machine.name, "seed": seed, "run": run,
           "config": plan.get("config"), "initial": plan.get("initial"), "steps": plan.get("steps"),
           "violation": violation, "digest": digest, "dsim_version": engine.DSIM_VERSION}
    with open(path, "w") as f:
        json.dump(doc, f, indent=1, sort_keys=True, default=engine._default)
        f.write("\n")
    return path


def replay_cross_interpreter(path):
    """Replay of a NOT_REPRODUCIBLE/differs_between_interpreters violation: the plan's library outputs in fresh
    interpreters under fixed, different PYTHONHASHSEEDs must differ."""
    res = []
    for hs in ("0", "1", "2", "3", "4242"):
        env = dict(os.environ)
        env["PYTHONHASHSEED"] = hs
        env["DSIM_NO_REEXEC"] = "1"
        p = subprocess.run([sys.executable, os.path.join(VERIF, "bin", "check"), "outs", path], env=env, capture_output=True, text=True, timeout=900)
        if p.returncode != 0:
            raise HarnessError("outs subprocess failed: %s" % p.stderr[-1000:])
        res.append(p.stdout.strip().splitlines()[-1])
    return len(set(res)) > 1


def replay_file(path, quiet=False):
    with open(path) as f:
        doc = json.load(f)
    machine = get_machine(doc["machine"])
    plan = {"machine": doc["machine"], "config": doc["config"], "initial": doc["initial"], "steps": doc["steps"]}
    out = engine.execute(machine, plan, keep=True)
    key = sig_key(doc["violation"]["signature"])
    v = engine._has_sig(out, key)
    same_digest = (out["digest"] == doc.get("digest"))
    return doc, out, v, same_digest


def replay_in_fresh_interpreter(path):
    env = dict(os.environ)
    env["PYTHONHASHSEED"] = "777"
    env["DSIM_NO_REEXEC"] = "1"
    p = subprocess.run([sys.executable, os.path.join(VERIF, "bin", "check"), "replay", path], env=env,
                       capture_output=True, text=True, timeout=900)
    return p.returncode == 1 and "REPRODUCED" in p.stdout and "digest=same" in p.stdout, p.stdout + p.stderr


def cmd_run(prop, tier, seed, nproc, runs_override=None, only=None):
    t_start = time.time()
    known = load_known()
    machines = machines_for(prop, only)
    if only:
        machines = [m for m in machines if m.name in only]
    per_machine = {}
    new_violations = []   # (machine, key, entry)
    known_hits = {}       # id(finding) -> [finding, count]
    total = {"runs": 0, "events": 0, "ticks": 0, "sched": 0, "steps": 0, "faults": {}, "probes": {}, "keys": set()}
    selftested = 0
    samples = []
    for m in machines:
        n = runs_override if runs_override is not None else m.runs[tier]
        env_scale = float(os.environ.get("DSIM_SCALE", "1"))
        n = max(1, int(n * env_scale))
        log("machine %s: %d runs (tier %s, seed %d, %d procs)" % (m.name, n, tier, seed, nproc))
        tot = explore(m, seed, tier, n, nproc)
        log("machine %s: done in %.1fs, %d runs with violations, %d signatures" % (
            m.name, tot["wall"], tot["nviol_runs"], len(tot["violations"])))
        per_machine[m.name] = {
            "runs": tot["runs"], "wall_s": round(tot["wall"], 2),
            "runs_per_hour": int(tot["runs"] / max(tot["wall"], 1e-6) * 3600),
            "events": tot["events"], "ticks": tot["ticks"], "sched_decisions": tot["sched"], "steps": tot["steps"],
            "faults_fired": dict(sorted(tot["faults"].items())), "probes": dict(sorted(tot["probes"].items())),
            "distinct_nontrivial": len(tot["keys"]), "rule": m.rule,
            "components": m.components,
            "violation_signatures": {k: c for k, c in sorted(tot["viol_counts"].items())},
        }
        for k in ("runs", "events", "ticks", "sched", "steps"):
            total[k] += tot[k]
        for k, v in tot["faults"].items():
            total["faults"][m.name + "." + k] = v
        for k, v in tot["probes"].items():
            total["probes"][m.name + "." + k] = v
        total["keys"].update(m.name + "|" + k for k in tot["keys"])
        # determinism self-test
        nself = int(os.environ.get("DSIM_SELFTEST", "24" if tier == "quick" else "64"))
        if nself > 0:
            mism = []
            selftested += selftest_digests(m, seed, tier, tot["digests"], nself, outs=tot["outs"], mismatches=mism)
            seen_sims = set()
            for (ri, sj) in mism:
                plan = m.gen(engine.run_rng(seed, m.name, ri), tier)
                plan["machine"] = m.name
                st = plan["steps"][sj]
                simname = st.get("sim", "?") if isinstance(st, dict) else "?"
                if simname in seen_sims:
                    continue
                seen_sims.add(simname)
                plan["steps"] = [st]
                sig = {"class": "NOT_REPRODUCIBLE", "sim": simname, "what": "differs_between_interpreters"}
                v = {"class": "NOT_REPRODUCIBLE", "signature": sig, "step": 0,
                     "message": "%s: the same call from the same generator state returns another result in another interpreter "
                                "(PYTHONHASHSEED); the result depends on string hashing / set order" % simname}
                kf = match_known(known, prop, sig)
                if kf is not None:
                    e = known_hits.setdefault(id(kf), [kf, 0])
                    e[1] += 1
                    continue
                new_violations.append((m, sig_key(sig), {"run": ri, "plan": plan, "violation": v}, 1))
        # samples
        for i in sorted(tot["digests"])[:2]:
            rng = engine.run_rng(seed, m.name, i)
            plan = m.gen(rng, tier)
            samples.append({"machine": m.name, "run": i, "digest": tot["digests"][i], "plan": m.sample_of(plan)})
        # violations
        for key, lst in sorted(tot["violations"].items()):
            sig = lst[0]["violation"]["signature"]
            kf = match_known(known, prop, sig)
            if kf is not None:
                e = known_hits.setdefault(id(kf), [kf, 0])
                e[1] += tot["viol_counts"][key]
                continue
            new_violations.append((m, key, lst[0], tot["viol_counts"][key]))

    # minimise and report new violations
    violation_lines = []
    max_min = int(os.environ.get("DSIM_MAX_MINIMISE", "8"))
    budget = float(os.environ.get("DSIM_MINIMISE_S", "40"))
    for n, (m, key, entry, count) in enumerate(new_violations):
        plan = entry["plan"]
        if entry["violation"]["signature"].get("what") == "differs_between_interpreters":
            path = write_replay(prop, m, seed, entry["run"], plan, entry["violation"], "")
            ok, txt = replay_in_fresh_interpreter(path)
            if not ok:
                raise HarnessError("cross-interpreter replay %s does not reproduce:\n%s" % (path, txt[-2000:]))
            violation_lines.append("VIOLATION property=%s replay=%s" % (prop, path))
            log("violation %s x1: %s" % (key, entry["violation"]["message"][:300]))
            continue
        if n < max_min:
            try:
                plan = engine.minimise(m, plan, key, time_budget=budget, log=log)
            except Exception as e:
                log("minimiser failed: %r" % (e,))
        out = engine.execute(m, plan)
        v = engine._has_sig(out, key) or entry["violation"]
        path = write_replay(prop, m, seed, entry["run"], plan, v, out["digest"])
        ok, txt = replay_in_fresh_interpreter(path)
        if not ok:
            raise HarnessError("replay %s does not reproduce in a fresh interpreter:\n%s" % (path, txt[-3000:]))
        violation_lines.append("VIOLATION property=%s replay=%s" % (prop, path))
        log("violation %s x%d: %s" % (key, count, v["message"][:300]))

    wall = time.time() - t_start
    evidence = {
        "property_id": prop, "tier": tier, "seed": seed, "level": LEVELS.get(prop, "exploration"),
        "coverage": {
            "evaluations": total["runs"],
            "distinct_nontrivial": len(total["keys"]),
            "rule": " || ".join("%s: %s" % (m.name, m.rule) for m in machines),
            "samples": samples[:6],
            "simulated_steps": {"stepclock_ticks": total["ticks"], "scheduler_decisions": total["sched"],
                                "operations": total["steps"], "events": total["events"]},
            "runs_per_hour": int(total["runs"] / max(wall, 1e-6) * 3600),
            "faults_fired": dict(sorted(total["faults"].items())),
            "probes": dict(sorted(total["probes"].items())),
            "machines": per_machine,
            "determinism_selftest": {"runs_reexecuted_in_fresh_interpreter_other_hashseed": selftested, "mismatches": 0},
            "known_findings_matched": [{"what": kf["what"], "signature": kf.get("signature"), "hits": c}
                                       for kf, c in known_hits.values()],
            "new_violation_signatures": [json.loads(k) for (_, k, _, _) in new_violations],
            "exhaustive": False,
        },
        "assumptions": sorted(set(a for m in machines for a in m.assumptions)),
        "wall_s": round(wall, 2),
        "violations": len(new_violations),
    }
    for m in machines:
        extra = getattr(m, "evidence_extra", None)
        if extra:
            evidence["coverage"].setdefault("extra", {})[m.name] = extra()
    os.makedirs(os.path.join(VERIF, "evidence"), exist_ok=True)
    with open(os.path.join(VERIF, "evidence", prop + ".json"), "w") as f:
        json.dump(evidence, f, indent=1, sort_keys=True, default=engine._default)
        f.write("\n")
    for kf, c in known_hits.values():
        print("KNOWN-FINDING: property=%s %s (hits=%d)" % (prop, kf["what"], c))
    for l in violation_lines:
        print(l)
    print("property=%s tier=%s seed=%d runs=%d distinct_nontrivial=%d new_violations=%d known_findings=%d wall=%.1fs" % (
        prop, tier, seed, total["runs"], len(total["keys"]), len(new_violations), len(known_hits), wall))
    return 1 if new_violations else 0


def main(argv):
    if len(argv) < 1:
        print("usage: check run <PROPERTY> [--tier quick|thorough] | replay <file> | setup | digests ...")
        return 2
    cmd = argv[0]
    try:
        if cmd == "setup":
            import dendropy
            assert sys.version_info >= (3, 12), "python >= 3.12 needed for sys.monitoring"
            assert hasattr(sys, "monitoring")
            src = os.path.dirname(os.path.abspath(dendropy.__file__))
            print("python %s; dendropy from %s" % (sys.version.split()[0], src))
            return 0
        if cmd == "run":
            prop = argv[1]
            tier = os.environ.get("VERIF_TIER", "quick")
            runs = None
            only = None
            a = argv[2:]
            while a:
                if a[0] == "--tier":
                    tier = a[1]; a = a[2:]
                elif a[0] == "--runs":
                    runs = int(a[1]); a = a[2:]
                elif a[0] == "--only":
                    only = a[1].split(","); a = a[2:]
                else:
                    raise SystemExit("unknown option %s" % a[0])
            seed = int(os.environ.get("VERIF_SEED", "0") or 0)
            nproc = int(os.environ.get("DSIM_PROCS", str(min(16, os.cpu_count() or 1))))
            return cmd_run(prop, tier, seed, nproc, runs, only)
        if cmd == "digests":
            mname, seed, tier, idx = argv[1], int(argv[2]), argv[3], [int(x) for x in argv[4].split(",") if x]
            _worker_init_light()
            m = get_machine(mname)
            out = {"digests": {}, "outs": {}}
            for i in idx:
                rng = engine.run_rng(seed, mname, i)
                plan = m.gen(rng, tier)
                plan["machine"] = mname
                o = engine.execute(m, plan)
                out["digests"][str(i)] = o["digest"]
                out["outs"][str(i)] = o["outs"]
            print(json.dumps(out))
            return 0
        if cmd == "outs":
            # library outputs of a replay file's plan in THIS interpreter (used by cross-interpreter replays)
            with open(argv[1]) as f:
                doc = json.load(f)
            m = get_machine(doc["machine"])
            plan = {"machine": doc["machine"], "config": doc["config"], "initial": doc["initial"], "steps": doc["steps"]}
            print(json.dumps(engine.execute(m, plan)["outs"]))
            return 0
        if cmd == "replay":
            with open(argv[1]) as f:
                doc0 = json.load(f)
            if doc0["violation"]["signature"].get("what") == "differs_between_interpreters":
                if replay_cross_interpreter(argv[1]):
                    print("REPRODUCED class=NOT_REPRODUCIBLE digest=same")
                    print("message: %s" % doc0["violation"]["message"])
                    print("VIOLATION property=%s replay=%s" % (doc0["property"], os.path.abspath(argv[1])))
                    return 1
                print("NOT-REPRODUCED (outputs identical under PYTHONHASHSEED 0,1,2,3,4242)")
                return 0
            doc, out, v, same = replay_file(argv[1])
            if v is not None:
                print("REPRODUCED class=%s digest=%s" % (v["class"], "same" if same else "different"))
                print("message: %s" % v["message"])
                print("VIOLATION property=%s replay=%s" % (doc["property"], os.path.abspath(argv[1])))
                return 1
            print("NOT-REPRODUCED (violations seen: %s)" % [x["signature"] for x in out["violations"]])
            return 0
        if cmd == "selftest":
            # determinism on a large sample: every machine, N runs, executed with 16 and with 3 worker processes and
            # re-executed in two fresh interpreters under other PYTHONHASHSEEDs (reverse order, single process)
            props = argv[1:] or sorted(PROPERTY_MACHINES)
            n = int(os.environ.get("DSIM_SELFTEST_RUNS", "400"))
            seed = int(os.environ.get("VERIF_SEED", "0") or 0)
            for prop in props:
                for m in machines_for(prop):
                    a = explore(m, seed, "quick", n, 16)
                    b = explore(m, seed, "quick", n, 3)
                    same = all(a["digests"].get(i) == b["digests"].get(i) for i in set(a["digests"]) | set(b["digests"]))
                    if not same:
                        raise HarnessError("machine %s: digests differ between 16 and 3 worker processes" % m.name)
                    k1 = selftest_digests(m, seed, "quick", a["digests"], n, hashseed="4242")
                    k2 = selftest_digests(m, seed, "quick", a["digests"], n, hashseed="99")
                    print("selftest %s: %d violation-free runs identical across worker counts (16/3) and two fresh interpreters (%d, %d compared)" % (
                        m.name, len(a["digests"]), k1, k2))
            return 0
        if cmd == "mkfinding":
            # development aid: (re)create the committed replay file of every known finding of a property
            prop = argv[1]
            nruns = int(argv[2]) if len(argv) > 2 else 2000
            known = [k for k in load_known() if k.get("property") == prop and k.get("status") == "finding"]
            for m in machines_for(prop):
                tot = explore(m, 0, "quick", nruns, int(os.environ.get("DSIM_PROCS", "16")))
                for key, lst in sorted(tot["violations"].items()):
                    sig = lst[0]["violation"]["signature"]
                    kf = match_known(known, prop, sig)
                    if kf is None or not kf.get("replay"):
                        continue
                    dest = os.path.join(VERIF, kf["replay"])
                    if os.path.exists(dest):
                        continue
                    plan = engine.minimise(m, lst[0]["plan"], key, time_budget=60, log=log)
                    out = engine.execute(m, plan)
                    v = engine._has_sig(out, key)
                    path = write_replay(prop, m, 0, lst[0]["run"], plan, v, out["digest"])
                    os.makedirs(os.path.dirname(dest), exist_ok=True)
                    os.replace(path, dest)
                    print("wrote", dest)
            return 0
        if cmd == "show":
            # debugging aid: run one index and dump events
            mname, seed, tier, i = argv[1], int(argv[2]), argv[3], int(argv[4])
            m = get_machine(mname)
            plan = m.gen(engine.run_rng(seed, mname, i), tier)
            plan["machine"] = mname
            out = engine.execute(m, plan, keep=True)
            print(json.dumps({"plan": plan, "outcome": out}, indent=1, default=engine._default))
            return 0
    except HarnessError as e:
        sys.stderr.write("HARNESS-ERROR: %s\n" % e)
        return 2
    except Exception:
        traceback.print_exc()
        sys.stderr.write("HARNESS-ERROR: unexpected exception\n")
        return 2
    print("unknown command %s" % cmd)
    return 2
