"""Engine: one integer decides everything; one plan is one exactly repeatable
execution; violations carry narrow signatures; plans are minimised and written
as replay files.

A *plan* is a JSON-serialisable dict {"machine", "config", "initial", "steps"}
generated from the run PRNG.  ``execute(machine, plan)`` is a pure function of
the plan and the code under test.
"""
import hashlib
import json
import random
import time

DSIM_VERSION = 1


def run_rng(seed, machine, i):
    h = hashlib.sha256(("%d/%s/%d" % (seed, machine, i)).encode()).digest()
    return random.Random(int.from_bytes(h[:16], "big"))


def jdump(o):
    return json.dumps(o, sort_keys=True, separators=(",", ":"), default=_default)


def _default(o):
    if isinstance(o, (set, frozenset)):
        return sorted(o, key=repr)
    if isinstance(o, bytes):
        return o.hex()
    return repr(o)


def sig_key(sig):
    return jdump(sig)


class Recorder(object):
    """Event log of one run.  The digest is the SHA-256 of all events; events
    never contain object identities, addresses, wall-clock values."""

    def __init__(self, keep=False):
        self._h = hashlib.sha256()
        self.n = 0
        self.keep = keep
        self.events = [] if keep else None
        self.violations = []
        self.faults = {}
        self.probes = {}
        self.keys = set()
        self.ticks = 0
        self.steps = 0
        self.sched = 0
        self.step_index = None
        self.outs = []      # hashes of library outputs that must not depend on the interpreter (kept out of the digest)

    def ev(self, *event):
        self.n += 1
        s = jdump((self.n,) + event)
        self._h.update(s.encode())
        if self.keep:
            self.events.append(json.loads(s))

    def out(self, value):
        """Record a library output whose value must be the same in every interpreter (e.g. a simulated tree).  It is
        kept out of the run digest - the digest judges the harness, the outputs judge the library."""
        self.outs.append([self.step_index, hashlib.sha256(jdump(value).encode()).hexdigest()[:16]])

    def fault(self, kind, n=1):
        self.faults[kind] = self.faults.get(kind, 0) + n

    def probe(self, name, n=1):
        self.probes[name] = self.probes.get(name, 0) + n

    def nontrivial(self, key):
        self.keys.add(key if isinstance(key, str) else jdump(key))

    def violation(self, cls, signature, message, step=None):
        sig = dict(signature)
        sig["class"] = cls
        v = {"class": cls, "signature": sig, "message": str(message)[:600],
             "step": self.step_index if step is None else step}
        self.ev("violation", cls, sig)
        self.violations.append(v)
        return v

    @property
    def digest(self):
        return self._h.hexdigest()

    def outcome(self):
        return {
            "digest": self.digest, "nevents": self.n, "violations": self.violations,
            "faults": self.faults, "probes": self.probes, "keys": sorted(self.keys),
            "ticks": self.ticks, "steps": self.steps, "sched": self.sched, "outs": self.outs,
        }


class StopRun(Exception):
    """Raised by a machine to end a run early after a violation that makes the
    remaining history meaningless."""


class Machine(object):
    name = None
    property_id = None
    runs = {"quick": 1000, "thorough": 10000}
    batch = 50
    rule = ""
    components = {}
    assumptions = []

    def gen(self, rng, tier):
        raise NotImplementedError

    def run(self, plan, rec):
        raise NotImplementedError

    def simplify(self, plan):
        """Yield simpler candidate plans (machine specific); default none."""
        return ()

    def sample_of(self, plan):
        return plan


def execute(machine, plan, keep=False):
    rec = Recorder(keep=keep)
    rec.ev("plan", plan.get("config"), plan.get("initial"))
    try:
        machine.run(plan, rec)
    except StopRun:
        pass
    out = rec.outcome()
    if keep:
        out["events"] = rec.events
    return out


# ----------------------------------------------------------------------------
# minimisation


def _has_sig(outcome, key):
    for v in outcome["violations"]:
        if sig_key(v["signature"]) == key:
            return v
    return None


def minimise(machine, plan, key, time_budget=60.0, log=None):
    """Delta-debug plan["steps"] and machine-specific simplifications while a
    violation with the same signature persists."""
    import copy
    t_end = time.time() + time_budget
    best = copy.deepcopy(plan)
    tests = 0

    def ok(cand):
        nonlocal tests
        tests += 1
        try:
            out = execute(machine, cand)
        except Exception:
            return False
        return _has_sig(out, key) is not None

    changed = True
    while changed and time.time() < t_end:
        changed = False
        steps = best.get("steps") or []
        # 1. chunk removal (ddmin style)
        n = 2
        while len(steps) >= 1 and time.time() < t_end:
            chunk = max(1, len(steps) // n)
            removed = False
            i = 0
            while i < len(steps) and time.time() < t_end:
                cand = dict(best)
                cand["steps"] = steps[:i] + steps[i + chunk:]
                if len(cand["steps"]) < len(steps) and ok(cand):
                    best = cand
                    steps = best["steps"]
                    removed = True
                    changed = True
                else:
                    i += chunk
            if chunk == 1 and not removed:
                break
            if not removed:
                n = min(len(steps), n * 2) if len(steps) > 0 else 1
                if chunk == 1:
                    break
            if len(steps) == 0:
                break
        # 2. machine-specific simplifications
        progress = True
        while progress and time.time() < t_end:
            progress = False
            for cand in machine.simplify(best):
                if time.time() >= t_end:
                    break
                if ok(cand):
                    best = cand
                    progress = True
                    changed = True
                    break
    if log:
        log("minimise: %d candidate executions, %d steps left" % (tests, len(best.get("steps") or [])))
    return best
