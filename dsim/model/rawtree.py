"""Library-independent view of a dendropy Tree, built from the raw attributes
(_seed_node, _child_nodes, _parent_node, _edge, _head_node, taxon) only; never
through the library's iterators.  Everything the oracles compare against is
derived from this walk.
"""


class Malformed(Exception):
    pass


def raw_nodes(tree, limit=100000):
    """Raw pre-order list of nodes reachable from the seed through
    _child_nodes.  Raises Malformed if a node is reached twice (sharing or a
    cycle) or the walk exceeds ``limit`` nodes."""
    seed = tree._seed_node
    if seed is None:
        raise Malformed("tree has no seed node")
    out = []
    seen = set()
    stack = [seed]
    while stack:
        nd = stack.pop()
        if id(nd) in seen:
            raise Malformed("node reached twice (shared child or cycle)")
        seen.add(id(nd))
        out.append(nd)
        if len(out) > limit:
            raise Malformed("more than %d nodes reachable" % limit)
        ch = nd._child_nodes
        if not isinstance(ch, list):
            raise Malformed("_child_nodes is not a list")
        for c in reversed(ch):
            stack.append(c)
    return out


def check_arborescence(tree):
    """Return the raw pre-order node list or raise Malformed with the first
    broken rule."""
    nodes = raw_nodes(tree)
    seed = tree._seed_node
    if seed._parent_node is not None:
        raise Malformed("seed node has a parent")
    for nd in nodes:
        e = nd._edge
        if e is None:
            raise Malformed("node without edge")
        if e._head_node is not nd:
            raise Malformed("edge.head_node is not the node owning the edge")
        if e.tail_node is not nd._parent_node:
            raise Malformed("edge.tail_node is not the node's parent")
        ids = set()
        for c in nd._child_nodes:
            if id(c) in ids:
                raise Malformed("child listed twice in one child list")
            ids.add(id(c))
            if c._parent_node is not nd:
                raise Malformed("child's parent pointer does not point to the node listing it")
    # edges distinct
    if len(set(id(nd._edge) for nd in nodes)) != len(nodes):
        raise Malformed("edge shared between nodes")
    return nodes


def check_iterators(tree, nodes):
    """Every traversal yields exactly the raw reachable set, each member once."""
    want = sorted(id(n) for n in nodes)
    for name in ("preorder_node_iter", "postorder_node_iter", "levelorder_node_iter", "nodes"):
        got = list(getattr(tree, name)())
        if sorted(id(n) for n in got) != want:
            raise Malformed("%s does not yield exactly the reachable nodes (%d vs %d)" % (name, len(got), len(nodes)))
    leaves = sorted(id(n) for n in nodes if not n._child_nodes)
    for name in ("leaf_node_iter", "leaf_nodes"):
        got = list(getattr(tree, name)())
        if sorted(id(n) for n in got) != leaves:
            raise Malformed("%s does not yield exactly the reachable leaves" % name)
    got = list(tree.edges())
    if sorted(id(e) for e in got) != sorted(id(n._edge) for n in nodes):
        raise Malformed("edges() does not yield exactly the reachable nodes' edges")


def leaf_taxa(nodes):
    """Multiset (sorted list) of leaf taxon ids plus the taxa themselves."""
    return [n.taxon for n in nodes if not n._child_nodes]


def clade_sets(tree, key=None):
    """dict id(node) -> frozenset of keys of leaf taxa below node (raw)."""
    if key is None:
        key = lambda t: id(t)
    nodes = raw_nodes(tree)
    below = {}
    for nd in reversed(nodes):
        if not nd._child_nodes:
            below[id(nd)] = frozenset([key(nd.taxon)]) if nd.taxon is not None else frozenset()
        else:
            s = set()
            for c in nd._child_nodes:
                s |= below[id(c)]
            if nd.taxon is not None and False:
                s.add(key(nd.taxon))
            below[id(nd)] = frozenset(s)
    return nodes, below


ROOT_EDGE = ("<seed edge>",)


def split_lengths(tree, rooted, key=None, include_trivial=True, include_root_edge=False):
    """Reference split -> summed edge length map.

    rooted: clades (frozenset of leaf keys).  unrooted: bipartitions of the
    leaf set, represented as the side that does not contain the smallest key,
    (root-edge duplicates and unifurcation chains merge because they induce the
    same bipartition and lengths are summed).  Missing lengths count 0.
    Returns (dict split -> length, all_lengths_present: bool)
    """
    if key is None:
        key = lambda t: t.label
    nodes, below = clade_sets(tree, key)
    allk = below[id(nodes[0])]
    out = {}
    all_present = True
    lo = min(allk) if allk else None
    root_chain = 0
    for nd in nodes:
        if nd._parent_node is None:
            continue
        c = below[id(nd)]
        ln = nd._edge.length
        if ln is None:
            all_present = False
            ln = 0
        if include_root_edge and c == allk:
            # a chain of unifurcations at the seed: the library folds these edges into the seed edge
            root_chain += ln
            continue
        if rooted:
            s = c
        else:
            s = c if lo not in c else allk - c
            if not s:
                continue
        if not include_trivial and (len(s) <= 1 or len(s) >= len(allk) - (0 if rooted else 1)):
            pass
        out[s] = out.get(s, 0) + ln
    if rooted:
        out.setdefault(allk, 0)
    if include_root_edge:
        # the library's encoding holds the seed edge too (its bipartition spans all leaves); a missing length counts 0
        out[ROOT_EDGE] = (nodes[0]._edge.length or 0) + root_chain
    return out, all_present


def nested(tree, with_lengths=True, sort=False):
    """Canonical nested tuple form: (label, length, [children...])."""
    def rec(nd):
        ch = [rec(c) for c in nd._child_nodes]
        if sort:
            ch.sort(key=repr)
        lab = nd.taxon.label if nd.taxon is not None else None
        return (lab, nd._label, nd._edge.length if with_lengths else None, ch)
    import sys
    return rec(tree._seed_node)


def newick(tree, lengths=True):
    """Iterative canonical newick-ish string with child order preserved."""
    out = []
    # iterative post-order emit
    stack = [(tree._seed_node, 0)]
    while stack:
        nd, i = stack.pop()
        ch = nd._child_nodes
        if i == 0 and ch:
            out.append("(")
        if i < len(ch):
            if i > 0:
                out.append(",")
            stack.append((nd, i + 1))
            stack.append((ch[i], 0))
            continue
        if ch:
            out.append(")")
        if nd.taxon is not None:
            out.append(repr(nd.taxon.label))
        if nd._label is not None:
            out.append("#" + repr(nd._label))
        if lengths and nd._edge.length is not None:
            out.append(":" + repr(nd._edge.length))
    return "".join(out)
