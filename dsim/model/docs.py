"""Seeded generators of valid documents (Newick, NEXUS, PHYLIP, FASTA).

Two families: *template* documents assembled here (to reach constructs the
library's writers never emit: TRANSLATE, TITLE/LINK, interleaved matrices,
nested comments, SETS blocks), and *library-written* documents produced by the
library's own writers into the simulated file system (what a crashed writer
would have been writing).  Each generator returns a dict
{"schema", "text", "content": "trees"|"chars"|"both", "data_type", "template"}.
"""
from . import gen

COMMENTS = ["[a comment]", "[&R]", "[&U]", "[nested [inner] comment]", "[&support=0.95]", "[!visible]", ""]


def _maybe(rng, s, p=0.3):
    return s if rng.random() < p else ""


def newick_doc(rng, size):
    ntrees = rng.randint(1, 4)
    ntax = rng.randint(1, size)
    style = rng.choice(["plain", "alpha", "under", "quoted", "spaced"])
    labs = gen.labels(rng, ntax, style)
    parts = []
    for _ in range(ntrees):
        spec = gen.tree_spec(rng, labs, rng.choice(gen.SHAPES), rng.choice(["none", "int", "float", "zero", "mixed_none"]),
                             internal_labels=rng.random() < 0.3, root_length=rng.random() < 0.2)
        s = gen.spec_to_newick(spec, rooting=rng.choice([None, None, True, False]))
        if rng.random() < 0.3:
            i = rng.randrange(len(s))
            # insert a comment at a token boundary only (never inside a quoted label)
            if "'" not in s:
                j = s.find(",", i)
                if j > 0:
                    s = s[:j] + rng.choice(COMMENTS) + s[j:]
        parts.append(s)
    sep = rng.choice(["\n", " ", "\n\n", ""])
    return {"schema": "newick", "text": sep.join(parts) + rng.choice(["", "\n"]), "content": "trees",
            "data_type": None, "template": "newick/%s" % style}


def _taxa_block(rng, labs, title=None):
    s = "BEGIN TAXA;\n"
    if title:
        s += "  TITLE %s;\n" % title
    s += "  DIMENSIONS NTAX=%d;\n  TAXLABELS\n" % len(labs)
    for l in labs:
        s += "    %s%s\n" % (gen.nexus_quote(l), _maybe(rng, " [a taxon]", 0.1))
    s += "  ;\nEND;\n"
    return s


def _trees_block(rng, labs, title=None, link=None, translate=False):
    s = "BEGIN TREES;\n"
    if title:
        s += "  TITLE %s;\n" % title
    if link:
        s += "  LINK TAXA = %s;\n" % link
    names = [gen.nexus_quote(l) for l in labs]
    tok = dict((l, l) for l in labs)
    if translate:
        s += "  TRANSLATE\n"
        ent = []
        for i, l in enumerate(labs):
            ent.append("    %d %s" % (i + 1, gen.nexus_quote(l)))
            tok[l] = str(i + 1)
        s += ",\n".join(ent) + "\n  ;\n"
    for t in range(rng.randint(1, 3)):
        spec = gen.tree_spec(rng, labs, rng.choice(gen.SHAPES), rng.choice(["none", "int", "float", "mixed_none"]),
                             internal_labels=False)
        if translate:
            def sub(sp):
                if not sp[2] and sp[0] is not None:
                    sp[0] = tok[sp[0]]
                for c in sp[2]:
                    sub(c)
            sub(spec)
        w = _maybe(rng, "[&W 0.5] ", 0.2)
        s += "  TREE %s = %s%s\n" % (rng.choice(["t%d" % t, "'tree %d'" % t, "*"[0:0] + "tr_%d" % t]),
                                     w, gen.spec_to_newick(spec, rooting=rng.choice([None, True, False])))
    s += "END;\n"
    return s


def _matrix_rows(rng, labs, rows, interleave, nchar):
    out = ""
    if rows and isinstance(next(iter(rows.values())), list):
        # continuous values: whitespace separated
        if interleave and nchar >= 2:
            cut = rng.randint(1, nchar - 1)
            for l in labs:
                out += "    %s  %s\n" % (gen.nexus_quote(l), " ".join(rows[l][:cut]))
            out += "\n"
            for l in labs:
                out += "    %s  %s\n" % (gen.nexus_quote(l), " ".join(rows[l][cut:]))
        else:
            for l in labs:
                out += "    %s  %s\n" % (gen.nexus_quote(l), " ".join(rows[l]))
        return out
    if interleave and nchar >= 2:
        cut = rng.randint(1, nchar - 1)
        for l in labs:
            out += "    %s  %s\n" % (gen.nexus_quote(l), rows[l][:cut])
        out += "\n"
        for l in labs:
            out += "    %s  %s\n" % (gen.nexus_quote(l), rows[l][cut:])
    else:
        for l in labs:
            out += "    %s  %s\n" % (gen.nexus_quote(l), rows[l])
    return out


def _chars_block(rng, labs, data_type, kind="CHARACTERS", title=None, link=None, with_ntax=False):
    nchar = rng.randint(1, 10)
    if data_type == "dna":
        rows = gen.sequences(rng, labs, nchar, gen.DNA_SYMBOLS)
        fmt = "DATATYPE=DNA MISSING=? GAP=-"
    elif data_type == "protein":
        rows = gen.sequences(rng, labs, nchar, gen.PROTEIN_SYMBOLS.replace("*", ""))
        fmt = "DATATYPE=PROTEIN MISSING=? GAP=-"
    elif data_type == "continuous":
        rows = dict((l, [rng.choice(["0.5", "1", "-2.25", "3e-2", "10.0"]) for _ in range(nchar)]) for l in labs)
        fmt = "DATATYPE=CONTINUOUS"
    else:
        rows = gen.sequences(rng, labs, nchar, "01?-", easy=0.8)
        fmt = "DATATYPE=STANDARD SYMBOLS=\"01\" MISSING=? GAP=-"
    interleave = rng.random() < 0.3 and nchar >= 2
    if interleave:
        fmt += " INTERLEAVE"
    s = "BEGIN %s;\n" % kind
    if title:
        s += "  TITLE %s;\n" % title
    if link:
        s += "  LINK TAXA = %s;\n" % link
    if with_ntax:
        s += "  DIMENSIONS NTAX=%d NCHAR=%d;\n" % (len(labs), nchar)
    else:
        s += "  DIMENSIONS NCHAR=%d;\n" % nchar
    s += "  FORMAT %s;\n  MATRIX\n" % fmt
    s += _matrix_rows(rng, labs, rows, interleave, nchar)
    s += "  ;\nEND;\n"
    return s, nchar


def nexus_doc(rng, size):
    kind = rng.choice(["trees", "trees_translate", "chars", "data", "full", "full_titled", "lib", "lib"])
    ntax = rng.randint(2, max(2, size))
    style = rng.choice(["plain", "alpha", "under", "quoted", "spaced"])
    labs = gen.labels(rng, ntax, style)
    head = "#NEXUS\n" + _maybe(rng, "[written by dsim]\n", 0.3)
    data_type = rng.choice(["dna", "standard", "dna", "protein", "continuous"])
    if kind == "trees":
        text = head + _taxa_block(rng, labs) + _trees_block(rng, labs)
        content = "trees"
    elif kind == "trees_translate":
        text = head + _taxa_block(rng, labs) + _trees_block(rng, labs, translate=True)
        content = "trees"
    elif kind == "chars":
        b, _ = _chars_block(rng, labs, data_type)
        text = head + _taxa_block(rng, labs) + b
        content = "chars"
    elif kind == "data":
        b, _ = _chars_block(rng, labs, data_type, kind="DATA", with_ntax=True)
        text = head + b
        content = "chars"
    elif kind == "full":
        b, nchar = _chars_block(rng, labs, data_type)
        text = head + _taxa_block(rng, labs) + b + _trees_block(rng, labs, translate=rng.random() < 0.5)
        if rng.random() < 0.6:
            a = rng.randint(1, nchar)
            text += "BEGIN SETS;\n  CHARSET first = 1-%d;\n%sEND;\n" % (
                a, ("  CHARSET rest = %d-%d;\n" % (a + 1, nchar)) if a < nchar else "")
        if rng.random() < 0.3:
            text += "BEGIN PAUP;\n  set autoclose=yes;\n  log start;\nEND;\n"
        content = "both"
    elif kind == "full_titled":
        b, nchar = _chars_block(rng, labs, data_type, title="chars1", link="taxa1")
        text = head + _taxa_block(rng, labs, title="taxa1") + b + _trees_block(rng, labs, title="trees1", link="taxa1")
        if rng.random() < 0.5:
            text += "BEGIN SETS;\n  TITLE sets1;\n  LINK CHARACTERS = chars1;\n  CHARSET all = 1-%d;\nEND;\n" % nchar
        content = "both"
    else:
        return None  # library-written: produced by the machine with the library's writer
    return {"schema": "nexus", "text": text, "content": content, "data_type": data_type,
            "template": "nexus/%s/%s" % (kind, style)}


def phylip_doc(rng, size):
    ntax = rng.randint(1, max(1, size))
    nchar = rng.randint(1, 12)
    variant = rng.choice(["strict", "relaxed", "relaxed_interleaved", "strict_interleaved"])
    data_type = rng.choice(["dna", "dna", "protein", "standard"])
    if data_type == "dna":
        syms = "ACGT-?N"
    elif data_type == "protein":
        syms = "ACDEFGHIKLMNPQRSTVWY-?"
    else:
        syms = "01?-"
    labs = gen.labels(rng, ntax, "plain" if variant.startswith("strict") else rng.choice(["plain", "under", "alpha"]))
    rows = gen.sequences(rng, labs, nchar, syms)
    text = " %d %d\n" % (ntax, nchar)
    inter = variant.endswith("interleaved") and nchar >= 2
    cut = rng.randint(1, nchar - 1) if inter else nchar

    def lab(l):
        if variant.startswith("strict"):
            return (l + " " * 10)[:10]
        return l + "  "
    for l in labs:
        text += lab(l) + rows[l][:cut] + "\n"
    if inter:
        text += "\n"
        for l in labs:
            text += rows[l][cut:] + "\n"
    kw = {"strict": variant.startswith("strict"), "interleaved": inter}
    if not kw["strict"]:
        if rng.random() < 0.3:
            kw["multispace_delimiter"] = True       # labels are followed by two spaces in the relaxed templates
        if rng.random() < 0.3:
            kw["underscores_to_spaces"] = True
    if rng.random() < 0.15:
        kw["ignore_invalid_chars"] = True
    return {"schema": "phylip", "text": text, "content": "chars", "data_type": data_type,
            "template": "phylip/%s" % variant, "kwargs": kw}


def fasta_doc(rng, size):
    ntax = rng.randint(1, max(1, size))
    data_type = rng.choice(["dna", "dna", "protein"])
    syms = "ACGT-?N" if data_type == "dna" else "ACDEFGHIKLMNPQRSTVWY-?"
    labs = gen.labels(rng, ntax, rng.choice(["plain", "under", "spaced"]))
    text = ""
    for l in labs:
        n = rng.randint(1, 14)
        seq = "".join(rng.choice(syms) for _ in range(n))
        text += ">%s\n" % l
        w = rng.choice([4, 7, 60])
        for i in range(0, n, w):
            text += seq[i:i + w] + "\n"
        text += _maybe(rng, "\n", 0.2)
    return {"schema": "fasta", "text": text, "content": "chars", "data_type": data_type, "template": "fasta"}
