"""Seeded generators shared by the machines.  Everything takes the run PRNG.

A tree *spec* is a nested list ``[label_or_None, length_or_None, [children]]``
(JSON-serialisable, identity free).  Specs are turned into library objects
through the public construction API (Node/new_child), never through a reader,
and into Newick text by a writer of our own.
"""

SHAPES = ("binary", "poly", "unifurc", "star", "caterpillar", "balanced")
LENGTH_PATTERNS = ("none", "zero", "int", "float", "mixed_none", "dyadic")


def labels(rng, n, style="plain"):
    if style == "plain":
        return ["t%d" % (i + 1) for i in range(n)]
    if style == "alpha":
        base = "ABCDEFGHIJKLMNOPQRSTUVWXYZ"
        return [base[i % 26] + ("" if i < 26 else str(i // 26)) for i in range(n)]
    if style == "spaced":
        return ["Sp %d x" % i for i in range(n)]
    if style == "under":
        return ["sp_%d" % i for i in range(n)]
    if style == "quoted":
        pool = ["it's", "a b", "x(y)", "p;q", "c:d", "e,f", "g[h]", "k'l'm", "n_o", "r=s", "u\"v", "w{z}"]
        return [pool[i % len(pool)] + ("" if i < len(pool) else str(i)) for i in range(n)]
    raise ValueError(style)


def length(rng, pattern):
    if pattern == "none":
        return None
    if pattern == "zero":
        return 0.0 if rng.random() < 0.5 else 0
    if pattern == "int":
        return rng.randint(1, 9)
    if pattern == "float":
        return round(rng.random() * 10, rng.randint(1, 6))
    if pattern == "dyadic":
        return rng.choice([0.25, 0.5, 1.0, 1.5, 2.0, 3.0, 4.0])
    if pattern == "mixed_none":
        return None if rng.random() < 0.3 else rng.choice([0.5, 1.0, 2.0, 3.5])
    if pattern == "mixed_zero":
        return 0.0 if rng.random() < 0.3 else rng.choice([0.5, 1.0, 2.0, 3.5])
    raise ValueError(pattern)


def tree_spec(rng, leaf_labels, shape="binary", lengths="float", internal_labels=False, root_length=False):
    """Random tree spec over the given leaf labels (each used exactly once)."""
    leaves = [[lab, length(rng, lengths), []] for lab in leaf_labels]
    rng.shuffle(leaves)
    n = len(leaves)
    cnt = [0]

    def inner(children):
        cnt[0] += 1
        lab = ("n%d" % cnt[0]) if internal_labels else None
        return [lab, length(rng, lengths), children]

    if n == 0:
        root = [None, None, []]
    elif n == 1:
        root = leaves[0] if shape not in ("unifurc", "unifurc_root") else inner([leaves[0]])
    elif shape == "star":
        root = inner(leaves)
    elif shape == "caterpillar":
        cur = leaves[0]
        for lf in leaves[1:]:
            cur = inner([cur, lf] if rng.random() < 0.5 else [lf, cur])
        root = cur
    elif shape == "balanced":
        level = leaves
        while len(level) > 1:
            nxt = []
            for i in range(0, len(level) - 1, 2):
                nxt.append(inner([level[i], level[i + 1]]))
            if len(level) % 2:
                nxt.append(level[-1])
            level = nxt
        root = level[0]
    else:
        pool = leaves
        while len(pool) > 1:
            if shape == "poly" and len(pool) > 2 and rng.random() < 0.5:
                k = rng.randint(3, min(5, len(pool)))
            else:
                k = 2
            picked = [pool.pop(rng.randrange(len(pool))) for _ in range(k)]
            pool.append(inner(picked))
        root = pool[0]
        if shape in ("unifurc", "unifurc_root"):
            root = _add_unifurcations(rng, root, inner)
        if shape == "unifurc_root":
            # the seed node itself has outdegree one (not part of SHAPES: asked for by name)
            root = inner([root])
    if not root_length:
        root[1] = None
    return root


def _add_unifurcations(rng, spec, inner):
    def rec(s):
        s[2] = [rec(c) for c in s[2]]
        if rng.random() < 0.25:
            return inner([s])
        return s
    spec[2] = [rec(c) for c in spec[2]]
    return spec


def spec_leaves(spec):
    out = []
    stack = [spec]
    while stack:
        s = stack.pop()
        if not s[2]:
            out.append(s[0])
        else:
            stack.extend(reversed(s[2]))
    return out


def spec_size(spec):
    n = 0
    stack = [spec]
    while stack:
        s = stack.pop()
        n += 1
        stack.extend(s[2])
    return n


def nexus_quote(label):
    if label is None:
        return ""
    special = set(" \t\n\r()[]{}/\\,;:=*'\"`+-<>_")
    if any(c in special for c in label):
        return "'" + label.replace("'", "''") + "'"
    return label


def raw_underscore_quote(label):
    """Like nexus_quote, but labels whose only special character is '_' are left unquoted (the reader then
    turns the underscores into spaces unless preserve_underscores is set)."""
    if label is not None and "_" in label and all(c.isalnum() or c == "_" for c in label):
        return label
    return nexus_quote(label)


def spec_to_newick(spec, rooting=None, lengths=True, terminator=";", quote=None):
    quote = quote or nexus_quote

    def rec(s):
        out = ""
        if s[2]:
            out = "(" + ",".join(rec(c) for c in s[2]) + ")"
        out += quote(s[0]) if s[0] is not None else ""
        if lengths and s[1] is not None:
            out += ":" + repr(s[1])
        return out
    pre = ""
    if rooting is True:
        pre = "[&R] "
    elif rooting is False:
        pre = "[&U] "
    return pre + rec(spec) + terminator


def build_tree(dendropy, spec, ns, is_rooted=None, leaf_only_taxa=True, label=None):
    """Build a dendropy.Tree from a spec through the public construction API.
    Labels of leaves become taxa (required in ``ns``); labels of internal
    nodes become node labels."""
    tree = dendropy.Tree(taxon_namespace=ns)
    if label is not None:
        tree.label = label
    tree.is_rooted = is_rooted

    def fill(nd, s):
        if s[1] is not None:
            nd.edge.length = s[1]
        if not s[2]:
            if s[0] is not None:
                nd.taxon = ns.require_taxon(label=s[0])
        else:
            if s[0] is not None:
                nd.label = s[0]
    root = tree.seed_node
    fill(root, spec)
    stack = [(root, spec)]
    while stack:
        nd, s = stack.pop()
        for cs in s[2]:
            ch = nd.new_child()
            fill(ch, cs)
            stack.append((ch, cs))
    return tree


# ---------------------------------------------------------------------------
# character data

DNA_SYMBOLS = "ACGT-?NRYMWSKVHDB"
STD_SYMBOLS = "01234"
PROTEIN_SYMBOLS = "ACDEFGHIKLMNPQRSTVWY*-?XBZ"


def sequences(rng, taxa_labels, nchar, symbols, easy=0.7):
    core = symbols[:4] if symbols.startswith("ACGT") else symbols[:max(2, len(symbols) // 2)]
    rows = {}
    for lab in taxa_labels:
        rows[lab] = "".join(rng.choice(core) if rng.random() < easy else rng.choice(symbols) for _ in range(nchar))
    return rows


def ultrametric_spec(rng, leaf_labels, shape="binary"):
    """Random ultrametric tree spec with dyadic node heights (all leaves at
    height 0), so that ages and sums of lengths are exact in binary floating
    point."""
    items = [([lab, None, []], 0.0) for lab in leaf_labels]
    rng.shuffle(items)
    if len(items) == 1:
        return items[0][0]
    while len(items) > 1:
        k = 2
        if shape == "poly" and len(items) > 2 and rng.random() < 0.4:
            k = 3
        picked = [items.pop(rng.randrange(len(items))) for _ in range(k)]
        h = max(p[1] for p in picked) + rng.choice([0.25, 0.5, 1.0, 1.5, 2.0])
        for sp, ch in picked:
            sp[1] = h - ch
        items.append(([None, None, [p[0] for p in picked]], h))
    return items[0][0]


def shrink_specs(spec):
    """Yield simpler variants of a tree spec: one leaf removed (a parent left with a single child is spliced out),
    then all lengths replaced by 1."""
    import copy

    def leaves_paths(s, path=()):
        if not s[2]:
            yield path
        for i, c in enumerate(s[2]):
            for p in leaves_paths(c, path + (i,)):
                yield p
    paths = list(leaves_paths(spec))
    if len(paths) > 2:
        for p in paths:
            s = copy.deepcopy(spec)
            parent = s
            for i in p[:-1]:
                parent = parent[2][i]
            del parent[2][p[-1]]
            # splice out unary internal nodes
            def fix(n):
                n[2] = [fix(c) for c in n[2]]
                if len(n[2]) == 1 and n[0] is None:
                    ch = n[2][0]
                    if n[1] is not None and ch[1] is not None:
                        ch[1] = ch[1] + n[1]
                    return ch
                return n
            s = fix(s)
            if s[2]:
                yield s
    s = copy.deepcopy(spec)
    changed = [False]

    def unit(n):
        if n[1] not in (None, 1):
            n[1] = 1
            changed[0] = True
        for c in n[2]:
            unit(c)
    unit(s)
    if changed[0]:
        yield s
