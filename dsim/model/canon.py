"""Canonical, identity-free dumps of DendroPy object graphs.

``dump(root)`` crawls the object graph through ``__dict__`` (attributes in
sorted-name order), lists, tuples, dicts (insertion order) and sets, numbering
every mutable object at its first visit.  Two graphs have equal dumps iff they
have the same shape, the same sharing structure and the same primitive values.
Objects are identified by the identity of their ``__dict__`` because
``Tree._clone_from`` & co. end with ``self.__dict__ = t.__dict__`` (the new
object and a hidden temporary share one ``__dict__``).

Lazily filled caches are not content and are skipped by name (SKIP).
"""
import types

SKIP = set(["_lower_cased_label", "_taxon_bitmask_map", "_bipartition_edge_map", "_split_bitmask_edge_map", "_dsim_addr"])
PRIMS = (int, float, str, bool, type(None), complex, bytes)


def _opaque(obj):
    cn = type(obj).__name__
    if cn in ("StateIdentity",):
        return ("state", getattr(obj, "_symbol", None), sorted(str(s) for s in (getattr(obj, "_fundamental_symbols", None) or [])))
    if cn.endswith("StateAlphabet") or cn == "StateAlphabet":
        return ("alphabet", cn, getattr(obj, "label", None), "".join(str(s) for s in getattr(obj, "symbols", []) if s))
    if isinstance(obj, (types.FunctionType, types.BuiltinFunctionType, types.MethodType, type, types.ModuleType)):
        return ("callable", getattr(obj, "__qualname__", getattr(obj, "__name__", "?")))
    return None


class Dump(object):

    def __init__(self, opaque_ids=None, taxa_by_label=False, limit=200000, skip=None):
        self.skip = SKIP if skip is None else skip
        self.num = {}
        self.nodes = []
        self.ids = set()       # identities of the mutable objects visited
        self.opaque_ids = opaque_ids or set()
        self.taxa_by_label = taxa_by_label
        self.limit = limit

    def key(self, obj):
        d = getattr(obj, "__dict__", None)
        if isinstance(d, dict) and not isinstance(obj, (type, types.ModuleType, types.FunctionType)):
            return id(d)
        return id(obj)

    def crawl(self, root):
        out = self._visit_iter(root)
        return out

    def _visit_iter(self, root):
        # iterative DFS with explicit work list to stay clear of the recursion limit
        return self._v(root, 0)

    def _v(self, obj, depth):
        if isinstance(obj, PRIMS):
            if isinstance(obj, float) and obj != obj:
                return "nan"
            return obj
        op = _opaque(obj)
        if op is not None:
            return op
        k = self.key(obj)
        if k in self.opaque_ids:
            return ("opaque", type(obj).__name__)
        if self.taxa_by_label and type(obj).__name__ == "Taxon":
            return ("taxon", obj.label)
        if k in self.num:
            return ("ref", self.num[k])
        n = len(self.nodes)
        self.num[k] = n
        self.ids.add(k)
        self.nodes.append(None)
        if len(self.nodes) > self.limit:
            raise RuntimeError("object graph too large")
        cn = type(obj).__name__
        if isinstance(obj, (list, tuple)):
            body = [self._v(x, depth + 1) for x in obj]
            if isinstance(obj, tuple):
                self.ids.discard(k)
        elif isinstance(obj, dict):
            body = [[self._v(a, depth + 1), self._v(b, depth + 1)] for a, b in obj.items()]
        elif isinstance(obj, (set, frozenset)):
            items = sorted(obj, key=_set_key)
            body = [self._v(x, depth + 1) for x in items]
        elif cn in ("OrderedSet", "AnnotationSet") or (hasattr(obj, "_item_list") and hasattr(obj, "_item_set")):
            body = [["items", [self._v(x, depth + 1) for x in obj._item_list]]]
            for a in sorted(obj.__dict__):
                if a in ("_item_list", "_item_set") or a in self.skip:
                    continue
                body.append([a, self._v(obj.__dict__[a], depth + 1)])
        else:
            d = getattr(obj, "__dict__", None)
            body = []
            if isinstance(d, dict):
                for a in sorted(d):
                    if a in self.skip:
                        continue
                    if a == "_annotations" and d[a] is not None and len(d[a]) == 0:
                        continue    # created lazily on first access: an empty set is the same as none
                    body.append([a, self._v(d[a], depth + 1)])
            slots = getattr(type(obj), "__slots__", None)
            if slots and not isinstance(d, dict):
                for a in sorted(slots):
                    if hasattr(obj, a):
                        body.append([a, self._v(getattr(obj, a), depth + 1)])
            if not isinstance(d, dict) and not slots:
                body = [["repr", repr(type(obj))]]
        self.nodes[n] = [cn, body]
        return ("ref", n)


def _set_key(x):
    if isinstance(x, PRIMS):
        return (0, repr(x))
    return (1, type(x).__name__, str(getattr(x, "label", "")), str(getattr(x, "_label", "")))


# for the question "which mutable objects can be reached", the lazily filled lookup tables count: an edge handed out by
# tree.split_bitmask_edge_map is as reachable as one found by walking the tree
SKIP_REACH = set(["_lower_cased_label", "_taxon_bitmask_map", "_dsim_addr"])


def reachable_ids(root):
    import sys
    d = Dump(skip=SKIP_REACH)
    old = sys.getrecursionlimit()
    sys.setrecursionlimit(max(old, 20000))
    try:
        d.crawl(root)
    finally:
        sys.setrecursionlimit(old)
    return d.ids


def dump(root, opaque_ids=None, taxa_by_label=False):
    import sys
    d = Dump(opaque_ids=opaque_ids, taxa_by_label=taxa_by_label)
    old = sys.getrecursionlimit()
    sys.setrecursionlimit(max(old, 20000))
    try:
        top = d.crawl(root)
    finally:
        sys.setrecursionlimit(old)
    return [top, d.nodes], d.ids


def first_difference(a, b, path="root"):
    """Human-readable location of the first difference between two dumps."""
    if type(a) != type(b):
        return "%s: %r vs %r" % (path, _short(a), _short(b))
    if isinstance(a, (list, tuple)):
        if len(a) != len(b):
            return "%s: length %d vs %d (%s vs %s)" % (path, len(a), len(b), _short(a), _short(b))
        for i, (x, y) in enumerate(zip(a, b)):
            label = x[0] if isinstance(x, list) and len(x) == 2 and isinstance(x[0], str) else i
            d = first_difference(x, y, "%s.%s" % (path, label))
            if d:
                return d
        return None
    if a != b:
        return "%s: %r vs %r" % (path, a, b)
    return None


def _short(x):
    s = repr(x)
    return s if len(s) < 80 else s[:77] + "..."
