"""C19 — character-matrix row/column operations select exactly what they name;
every operation terminates, leaves its argument matrices unchanged and refuses
matrices over a different namespace.

Reference model: per matrix an ordered dict label -> list of symbols, plus
named column sets.  After every step every live matrix is compared with the
model row by row; each step runs under the step clock.
"""
import dendropy
from dendropy.datamodel import charmatrixmodel, basemodel
from dendropy.utility import error as dperror

from ..engine import Machine, StopRun
from ..seams import stepclock
from ..seams.simfs import SimFS, patched_open

TYPES = {
    "dna": ("DnaCharacterMatrix", "ACGT-?NRYMWSKVHDB"),
    "rna": ("RnaCharacterMatrix", "ACGU-?NRYMWSKVHDB"),
    "nucleotide": ("NucleotideCharacterMatrix", "ACGTU-?NRYMWSKVHDB"),
    "protein": ("ProteinCharacterMatrix", "ACDEFGHIKLMNPQRSTVWY*-?BZX"),
    "standard": ("StandardCharacterMatrix", "0123456789-?"),
    "restriction": ("RestrictionSitesCharacterMatrix", "1010"),
    "infinite": ("InfiniteSitesCharacterMatrix", "1010"),
    # cells are floats; the model keeps their str() (what symbols_as_list() renders)
    "continuous": ("ContinuousCharacterMatrix", [0.5, -1.25, 3.0, 2e-05, 0.0, 7.0, 1e+20, -0.0]),
}
MAXCOLS = 48
BUDGET = 400000


_CONFIRMED = {}


class Hang(Exception):
    def __init__(self, step, stack):
        self.step = step
        self.stack = stack


def _common_site(s1, s2):
    n = 0
    while n < len(s1) and n < len(s2) and s1[n] == s2[n]:
        n += 1
    return s1[n - 1] if n else (s1 or ["?"])[-1]


class C19(Machine):
    name = "c19"
    property_id = "C19"
    runs = {"quick": 40000, "thorough": 800000}
    batch = 100
    rule = ("seeded histories (3-30 steps) of concatenate/extend/add/replace/update/remove/discard/keep/fill/pack/subset/export "
            "operations on 1-4 matrices over a shared namespace (partially overlapping taxon sets, repeated labels and objects) plus "
            "one over a foreign namespace; distinct = operation-name sequences with at least one state-changing step")
    components = {"real": ["CharacterMatrix and subclasses (DNA, RNA, nucleotide, protein, standard, restriction sites, infinite sites, continuous)", "CharacterDataSequence",
                           "CharacterSubset", "fasta reader (concatenate_from_streams/paths)"],
                  "simulated": ["operation history", "file system for concatenate_from_paths (SimFS)", "logical time (step clock)"]}
    assumptions = ["termination = each operation finishes within %d step-clock ticks, re-checked at 20x on a fresh replay of the history before HANG is reported" % BUDGET,
                   "taxon labels within a namespace are distinct; rows are compared through symbols_as_list()"]

    def __init__(self, name="c19"):
        self.name = name

    def gen(self, rng, tier):
        dt = rng.choice(sorted(TYPES))
        syms = TYPES[dt][1]
        ntax = rng.randint(1, 8)
        labs = ["t%d" % i for i in range(ntax)]
        nm = rng.randint(1, 4)
        mats = []
        for i in range(nm):
            full = rng.random() < 0.5
            ragged = rng.random() < 0.25
            n = rng.randint(0, 12)
            rows = {}
            for l in labs:
                if full or rng.random() < 0.6:
                    k = n if not ragged else rng.randint(0, 12)
                    rows[l] = [rng.choice(syms[:4] if rng.random() < 0.7 else syms) for _ in range(k)]
                    if dt != "continuous":
                        rows[l] = "".join(rows[l])
            mats.append({"rows": rows, "label": rng.choice([None, None, "locus", "gene", "locus"])})
        foreign = {"rows": dict((l, [rng.choice(syms[:2]) for _ in range(3)]) for l in labs[:2]), "label": None}
        if dt != "continuous":
            foreign["rows"] = dict((l, "".join(v)) for l, v in foreign["rows"].items())
        ops = ["concatenate", "concatenate", "concatenate_paths", "concatenate_streams", "extend_matrix", "extend_sequences",
               "add_sequences", "replace_sequences", "update_sequences", "remove_sequences", "discard_sequences", "keep_sequences", "del_row",
               "fill", "fill_taxa", "pack", "new_subset", "export_subset", "export_indices", "foreign", "self_extend"]
        steps = []
        for _ in range(rng.randint(3, 70 if tier == "thorough" else 30)):
            op = rng.choice(ops)
            steps.append({"op": op, "a": rng.randrange(100), "b": rng.randrange(100),
                          "list": [rng.randrange(100) for _ in range(rng.randint(1, 4))],
                          "taxa": [rng.randrange(100) for _ in range(rng.randint(0, 4))],
                          # index lists may be unsorted and may name a column twice (it is still selected once)
                          "idx": ((lambda l: l if rng.random() < 0.4 else sorted(set(l)))([rng.randrange(16) for _ in range(rng.randint(0, 6))])),
                          "size": rng.choice([None, None, 0, 3, 8, 14]), "append": rng.random() < 0.7,
                          "flag": rng.random() < 0.5, "sym": rng.randrange(100),
                          "fop": rng.choice(["extend_matrix", "extend_sequences", "add_sequences", "replace_sequences",
                                             "update_sequences", "concatenate"])})
        return {"config": {"data_type": dt, "labels": labs}, "initial": {"matrices": mats, "foreign": foreign}, "steps": steps}

    # ------------------------------------------------------------------
    def run(self, plan, rec):
        try:
            self._run(plan, rec, 1)
        except Hang as h:
            st = plan["steps"][h.step]
            opname = st["op"] if st["op"] != "foreign" else "foreign:" + st["fop"]
            known = _CONFIRMED.get(opname)
            if known is not None and known in h.stack:
                # this operation was already confirmed (at 20x) to hang in this function during this process
                rec.step_index = h.step
                rec.probe("hang_attributed_to_confirmed_site")
                rec.violation("HANG", {"op": opname, "function": known},
                              "operation %s did not finish within %d ticks in %s (site confirmed at 20x earlier)" % (st["op"], BUDGET, known))
                return
            # confirm on a fresh replay of the same history with 20x the budget
            from ..engine import Recorder
            rec2 = Recorder()
            try:
                self._run(plan, rec2, 20)
                rec.probe("slow_but_terminating")
            except Hang as h2:
                if h2.step == h.step:
                    st = plan["steps"][h.step]
                    rec.step_index = h.step
                    site = _common_site(h.stack, h2.stack)
                    _CONFIRMED[opname] = site
                    rec.violation("HANG", {"op": st["op"] if st["op"] != "foreign" else "foreign:" + st["fop"], "function": site},
                                  "operation %s did not finish within %d ticks (20x budget) in %s" % (st["op"], 20 * BUDGET, site))
            except StopRun:
                pass

    def _mk(self, cls, rows, ns, label):
        m = cls.from_dict(rows, taxon_namespace=ns) if rows else cls(taxon_namespace=ns)
        m.label = label
        return m

    def _run(self, plan, rec, scale):
        cfg = plan["config"]
        clock = stepclock.get_clock()
        cls = getattr(dendropy, TYPES[cfg["data_type"]][0])
        syms = TYPES[cfg["data_type"]][1]
        labs = cfg["labels"]
        ns = dendropy.TaxonNamespace(labs)
        self.ns = ns
        pool = []      # (matrix, model rows: dict label->list, label)
        for md in plan["initial"]["matrices"]:
            m = self._mk(cls, md["rows"], ns, md["label"])
            pool.append([m, dict((l, [str(c) for c in s]) for l, s in md["rows"].items()), {}])
        fns = dendropy.TaxonNamespace(labs)
        fd = plan["initial"]["foreign"]
        foreign = self._mk(cls, fd["rows"], fns, None)
        fmodel = dict((l, [str(c) for c in s]) for l, s in fd["rows"].items())
        names = []
        changed = False
        self._compare(rec, pool, foreign, fmodel, "init")
        for i, st in enumerate(plan["steps"]):
            rec.step_index = i
            rec.steps += 1
            op = st["op"]
            A = pool[st["a"] % len(pool)]
            B = pool[st["b"] % len(pool)]
            g = clock.guard(BUDGET * scale)
            outcome = None
            exc = None
            with g:
                try:
                    outcome = self._apply(rec, st, op, cls, syms, pool, A, B, foreign, fmodel)
                except stepclock.StepBudgetExceeded:
                    raise
                except StopRun:
                    raise
                except Exception as e:
                    exc = e
            rec.ticks += g.used
            if g.expired:
                raise Hang(i, list(g.stack or []))
            if exc is not None:
                import traceback
                fn = [f.name for f in traceback.extract_tb(exc.__traceback__) if "dendropy" in f.filename]
                rec.violation("OP_FAILED", {"op": op, "exception": type(exc).__name__, "function": fn[-1] if fn else "harness"},
                              "%s raised %s: %s" % (op, type(exc).__name__, exc))
                raise StopRun()
            rec.ev("op", op, outcome)
            names.append(op)
            if outcome == "changed":
                changed = True
            self._compare(rec, pool, foreign, fmodel, op)
        if changed:
            rec.nontrivial(names)

    # ------------------------------------------------------------------
    def _taxa(self, st, labs):
        return [labs[k % len(labs)] for k in st["taxa"]]

    def _apply(self, rec, st, op, cls, syms, pool, A, B, foreign, fmodel):
        ns = self.ns
        labs = [t.label for t in ns]
        mA, rA, sA = A
        mB, rB, sB = B

        def T(label):
            return ns.get_taxon(label)

        def width(rows):
            return max([len(v) for v in rows.values()] or [0])

        def add_pool(m, rows, subsets):
            if len(pool) < 6:
                pool.append([m, rows, subsets])
            else:
                pool[-1] = [m, rows, subsets]

        if op in ("concatenate", "concatenate_paths", "concatenate_streams"):
            items = [pool[k % len(pool)] for k in st["list"]]
            if sum(width(it[1]) for it in items) > MAXCOLS:
                return "skipped"
            if op == "concatenate":
                admissible = all(len(it[1]) == len(labs) and len(set(len(v) for v in it[1].values())) == 1 for it in items)
                if not admissible:
                    try:
                        cls.concatenate([it[0] for it in items])
                    except ValueError:
                        rec.fault("inadmissible_concatenate")
                        return "refused"
                    except IndexError:
                        rec.fault("inadmissible_concatenate")
                        return "refused"
                    return "completed_inadmissible"
                res = cls.concatenate([it[0] for it in items])
                rows = dict((l, sum((it[1][l] for it in items), [])) for l in labs)
                # one recorded character subset per source matrix covering exactly its columns
                subs = list(res.character_subsets.values())
                if len(subs) != len(items):
                    rec.violation("WRONG_RESULT", {"op": op, "what": "subset_count"},
                                  "concatenation of %d matrices recorded %d character subsets" % (len(items), len(subs)))
                    raise StopRun()
                off = 0
                for it, cs in zip(items, subs):
                    w = width(it[1])
                    if sorted(cs.character_indices) != list(range(off, off + w)):
                        rec.violation("WRONG_RESULT", {"op": op, "what": "subset_columns"},
                                      "character subset %r covers %s, expected columns %d..%d" % (cs.label, sorted(cs.character_indices), off, off + w - 1))
                        raise StopRun()
                    off += w
                if len(set(id(it[0]) for it in items)) < len(items):
                    rec.probe("concatenate_repeated_object")
                labels_ = [it[0].label for it in items if it[0].label is not None]
                if len(set(labels_)) < len(labels_):
                    rec.probe("concatenate_repeated_label")
                if res.taxon_namespace is not ns:
                    rec.violation("WRONG_RESULT", {"op": op, "what": "namespace"}, "concatenated matrix has another namespace")
                    raise StopRun()
                add_pool(res, rows, dict((cs.label, sorted(cs.character_indices)) for cs in subs))
                return "changed"
            # via FASTA files in SimFS: every file must hold the same taxa with equal lengths
            usable = [it for it in items if len(it[1]) >= 1 and len(set(len(v) for v in it[1].values())) == 1 and width(it[1]) > 0
                      and set(it[1]) == set(items[0][1])]
            if not usable or usable[0] is not items[0] or len(usable) != len(items) or cls is dendropy.ContinuousCharacterMatrix:
                return "skipped"
            fs = SimFS()
            paths = []
            for n, it in enumerate(items):
                text = "".join(">%s\n%s\n" % (l, "".join(it[1][l])) for l in labs if l in it[1])
                fs.put("/sim/m%d.fasta" % n, text)
                paths.append("/sim/m%d.fasta" % n)
            with patched_open(fs, [charmatrixmodel, basemodel]):
                if op == "concatenate_paths":
                    res = cls.concatenate_from_paths(paths, schema="fasta")
                else:
                    res = cls.concatenate_from_streams([fs.open(p) for p in paths], schema="fasta")
            got = dict((t.label, res[t].symbols_as_string()) for t in res)
            want = dict((l, "".join(sum((it[1][l] for it in items), []))) for l in items[0][1])
            if got != want:
                rec.violation("WRONG_RESULT", {"op": op, "what": "rows"}, "concatenation from files: %s, expected %s" % (got, want))
                raise StopRun()
            rec.probe("concatenate_from_files")
            return "checked"
        if op in ("extend_matrix", "extend_sequences", "add_sequences", "replace_sequences", "update_sequences"):
            if mA is mB:
                if op in ("extend_matrix", "extend_sequences"):
                    return "skipped"      # see 'self_extend'
                # the matrix itself as argument: adding / replacing / updating its rows with its own rows names no change
                rec.fault("self_argument")
                getattr(mA, op)(mA)
                return "self"
            if op in ("extend_matrix", "extend_sequences") and width(rA) + width(rB) > MAXCOLS:
                return "skipped"
            if op == "extend_matrix":
                mA.extend_matrix(mB)
                for l, v in rB.items():
                    if l in rA:
                        rA[l] = rA[l] + list(v)
                    else:
                        rA[l] = list(v)
            elif op == "extend_sequences":
                mA.extend_sequences(mB, is_add_new_sequences=st["flag"])
                for l, v in rB.items():
                    if l in rA:
                        rA[l] = rA[l] + list(v)
                    elif st["flag"]:
                        rA[l] = list(v)
            elif op == "add_sequences":
                mA.add_sequences(mB)
                for l, v in rB.items():
                    if l not in rA:
                        rA[l] = list(v)
            elif op == "replace_sequences":
                mA.replace_sequences(mB)
                for l, v in rB.items():
                    if l in rA:
                        rA[l] = list(v)
            else:
                mA.update_sequences(mB)
                for l, v in rB.items():
                    rA[l] = list(v)
            return "changed"
        if op == "self_extend":
            # fault dimension: the matrix itself as argument; only termination and well-formedness are demanded
            if width(rA) * 2 > MAXCOLS:
                return "skipped"
            rec.fault("self_argument")
            fn = mA.extend_matrix if st["flag"] else mA.extend_sequences
            fn(mA)
            for l in rA:
                rA[l] = rA[l] + rA[l]       # every row extended by (a snapshot of) itself
            return "self"
        if op == "foreign":
            fop = st["fop"]
            rec.fault("foreign_namespace_argument")
            try:
                if fop == "concatenate":
                    cls.concatenate([mA, foreign])
                else:
                    getattr(mA, fop)(foreign)
            except (dperror.TaxonNamespaceIdentityError, ValueError):
                return "refused"
            rec.violation("MISSING_ERROR", {"op": "foreign:" + fop}, "%s accepted a matrix over a different taxon namespace" % fop)
            raise StopRun()
        if op == "del_row":
            # del matrix[key]: the key may be a Taxon, its label or its index in the namespace (all three are documented)
            have = [l for l in labs if l in rA]
            if not have:
                return "skip"
            l = have[st["a"] % len(have)]
            t = T(l)
            key = [t, l, list(mA.taxon_namespace).index(t)][st["b"] % 3]
            del mA[key]
            del rA[l]
            return "changed"
        if op in ("remove_sequences", "discard_sequences", "keep_sequences"):
            tl = self._taxa(st, labs)
            if op == "remove_sequences":
                tl2 = []
                for l in tl:
                    if l in rA and l not in tl2:
                        tl2.append(l)
                mA.remove_sequences([T(l) for l in tl2])
                for l in tl2:
                    del rA[l]
            elif op == "discard_sequences":
                mA.discard_sequences([T(l) for l in tl])
                for l in tl:
                    rA.pop(l, None)
            else:
                mA.keep_sequences([T(l) for l in tl])
                for l in list(rA):
                    if l not in tl:
                        del rA[l]
            return "changed"
        if op in ("fill", "pack", "fill_taxa"):
            value = syms[st["sym"] % len(syms)]
            if cls is not dendropy.ContinuousCharacterMatrix:
                value = mA.default_state_alphabet[value]
            else:
                rec.probe("continuous_fill")
            vs = str(value)
            if op == "fill_taxa":
                mA.fill_taxa()
                for l in labs:
                    rA.setdefault(l, [])
                return "changed"
            size = st["size"]
            if size is not None and size > MAXCOLS:
                return "skipped"
            if op == "pack":
                mA.pack(value=value, size=size, append=st["append"])
                for l in labs:
                    rA.setdefault(l, [])
            else:
                mA.fill(value, size=size, append=st["append"])
            tgt = size if size is not None else width(rA)
            for l in rA:
                pad = [vs] * max(0, tgt - len(rA[l]))
                rA[l] = (rA[l] + pad) if st["append"] else (pad + rA[l])
            return "changed"
        if op == "new_subset":
            w = width(rA)
            idx = [i for i in st["idx"] if i < max(w, 1)]
            label = "cs%d" % (st["a"] % 3)
            if label in sA or label in mA.character_subsets:
                try:
                    mA.new_character_subset(label=label, character_indices=idx)
                except ValueError:
                    return "refused"
                return "completed_inadmissible"
            mA.new_character_subset(label=label, character_indices=idx)
            sA[label] = sorted(set(idx))
            if len(set(idx)) < len(idx):
                rec.probe("repeated_index")
            return "subset"
        if op in ("export_subset", "export_indices"):
            if op == "export_subset":
                if not sA:
                    return "skipped"
                label = sorted(sA)[st["b"] % len(sA)]
                idx = sA[label]
                res = mA.export_character_subset(label if st["flag"] else mA.character_subsets[label])
            else:
                idx = st["idx"]
                if len(set(idx)) < len(idx):
                    rec.probe("repeated_index")
                res = mA.export_character_indices(tuple(idx) if st["flag"] else list(idx))
            sel = set(idx)
            rows = dict((l, [c for i, c in enumerate(v) if i in sel]) for l, v in rA.items())
            if res.taxon_namespace is not ns:
                rec.violation("WRONG_RESULT", {"op": op, "what": "namespace"}, "exported matrix has another namespace")
                raise StopRun()
            add_pool(res, rows, {})
            return "changed"
        raise ValueError(op)

    # ------------------------------------------------------------------
    def _compare(self, rec, pool, foreign, fmodel, after):
        for k, (m, rows, subs) in enumerate(pool + [[foreign, fmodel, {}]]):
            got = {}
            for t in m:
                got[t.label] = m[t].symbols_as_list()
            want = dict((l, list(v)) for l, v in rows.items())
            if got != want:
                which = "foreign" if m is foreign else "matrix #%d" % k
                d = [l for l in sorted(set(got) | set(want)) if got.get(l) != want.get(l)]
                rec.violation("STATE_DIFFERS", {"after": after, "what": "rows" if m is not foreign else "argument_changed"},
                              "after %s: %s: rows differ for %s: got %s, expected %s" % (
                                  after, which, d[:3], dict((l, got.get(l)) for l in d[:3]), dict((l, want.get(l)) for l in d[:3])))
                raise StopRun()
            if len(m) != len(rows):
                rec.violation("STATE_DIFFERS", {"after": after, "what": "len"}, "len(matrix) %d vs %d rows expected" % (len(m), len(rows)))
                raise StopRun()
            if m is not foreign and m.taxon_namespace is not self.ns:
                rec.violation("STATE_DIFFERS", {"after": after, "what": "namespace"}, "matrix lost its namespace")
                raise StopRun()


def make(name):
    return C19(name)
