"""C04 — tree-to-tree distances equal their split-set definitions, are metrics,
and never use bipartition data cached before a modification.

Simulated: the history of structural edits interleaved with distance calls on
three long-lived trees that share a namespace and leaf set.  The reference for
every query is computed from the raw walk of the *current* structures.
"""
import math
import warnings

import dendropy
from dendropy.calculate import treecompare
from dendropy.utility import error as dperror

from ..engine import Machine, StopRun
from ..model import gen, rawtree
from ..seams.simrng import SimRNG
from ..seams.simaddr import SimAddresses

QUERIES = ["symmetric_difference", "false_positives_and_negatives", "weighted_robinson_foulds_distance", "euclidean_distance",
           "find_missing_bipartitions", "Tree.symmetric_difference", "unweighted_robinson_foulds_distance"]
EDITS = ["rotate", "reseed", "collapse", "resolve", "spr", "set_length", "clear_length", "scale", "encode", "copy", "nni", "nudge_length", "tiny_length", "root_length", "unifurcation", "graft_all", "prune_all"]


def _rel(a, b, tol=1e-9):
    return abs(a - b) <= tol * max(1.0, abs(a), abs(b))


class C04(Machine):
    name = "c04"
    property_id = "C04"
    runs = {"quick": 60000, "thorough": 1000000}
    batch = 300
    rule = ("three trees (4-9 leaves) over one namespace and leaf set, 5-40 steps of structural edits interleaved with distance queries "
            "on ordered pairs; distinct = (preceding edit kind, query kind, reference symmetric difference, lengths complete, rooting) with a non-zero reference distance")
    components = {"real": ["dendropy.calculate.treecompare (all distance functions)", "Tree.encode_bipartitions", "Tree.bipartition_edge_map",
                           "Tree/Node/Edge mutators used as edits"],
                  "simulated": ["history of edits and queries", "random source of randomised edits (SimRNG)", "object addresses (SimAddr)"]}
    assumptions = ["reference split sets and per-split lengths come from the raw walk of the current structures (unifurcation chains and "
                   "the two edges at an unrooted basal bifurcation merged, absent length = 0)",
                   "numeric equality of weighted distances is demanded only when every non-root edge of both trees has a length; otherwise "
                   "only symmetric definedness"]

    def __init__(self, name="c04"):
        self.name = name

    def gen(self, rng, tier):
        n = rng.randint(4, 14 if tier == "thorough" else 9)
        labs = gen.labels(rng, n, "plain")
        rooted = rng.choice([True, False, None])
        pat = rng.choice(["dyadic", "dyadic", "int", "float", "mixed_none", "none", "mixed_zero"])
        trees = [gen.tree_spec(rng, labs, rng.choice(["binary", "binary", "poly", "caterpillar", "balanced", "star", "unifurc", "unifurc_root"]), pat) for _ in range(3)]
        if rng.random() < 0.3:
            trees[1] = trees[0]
        steps = []
        for _ in range(rng.randint(5, 90 if tier == "thorough" else 40)):
            if rng.random() < 0.5:
                steps.append({"op": "edit", "kind": rng.choice(EDITS), "t": rng.randrange(3), "k": rng.randrange(10 ** 6),
                              "k2": rng.randrange(10 ** 6), "x": rng.choice([0.25, 0.5, 1.0, 2.0, 3.0]), "rng": rng.getrandbits(32)})
            else:
                steps.append({"op": "query", "kind": rng.choice(QUERIES), "a": rng.randrange(3), "b": rng.randrange(3),
                              "foreign": rng.random() < 0.05, "axioms": rng.random() < 0.3})
        # taxa of the namespace that no tree carries at first (before and after the leaf taxa in namespace order): the
        # leaf set can grow and shrink during the history ('graft_all' / 'prune_all' keep it the same on all three trees)
        nf = rng.choice([0, 0, 1, 2, 3])
        nb = rng.choice([0, 0, 1])
        return {"config": {"labels": labs, "rooted": rooted, "addr_seed": rng.getrandbits(32),
                           "spare_front": ["f%d" % i for i in range(nf)], "spare_back": ["z%d" % i for i in range(nb)]},
                "initial": {"trees": trees}, "steps": steps}

    def simplify(self, plan):
        import copy
        for i, sp0 in enumerate(plan["initial"]["trees"]):
            leaves0 = gen.spec_leaves(sp0)
            if len(leaves0) <= 4:
                break
            drop = leaves0[-1]
            cand = copy.deepcopy(plan)
            ok = True
            for j in range(3):
                done = False
                for sp in gen.shrink_specs(cand["initial"]["trees"][j]):
                    if drop not in gen.spec_leaves(sp) and len(gen.spec_leaves(sp)) == len(leaves0) - 1:
                        cand["initial"]["trees"][j] = sp
                        done = True
                        break
                ok = ok and done
            if ok:
                cand["config"]["labels"] = [l for l in cand["config"]["labels"] if l != drop]
                yield cand
            break

    # ------------------------------------------------------------------
    def run(self, plan, rec):
        with SimAddresses(plan["config"]["addr_seed"]), warnings.catch_warnings():
            warnings.simplefilter("ignore")
            self._run(plan, rec)

    def _run(self, plan, rec):
        cfg = plan["config"]
        all_labels = cfg.get("spare_front", []) + cfg["labels"] + cfg.get("spare_back", [])
        ns = dendropy.TaxonNamespace(all_labels)
        self.ns = ns
        self.rooted = cfg["rooted"]
        trees = [gen.build_tree(dendropy, sp, ns, is_rooted=cfg["rooted"]) for sp in plan["initial"]["trees"]]
        fns = dendropy.TaxonNamespace(all_labels)
        foreign = gen.build_tree(dendropy, plan["initial"]["trees"][0], fns, is_rooted=cfg["rooted"])
        last_edit = None
        for i, st in enumerate(plan["steps"]):
            rec.step_index = i
            rec.steps += 1
            if st["op"] == "edit":
                t = st["t"] % 3
                try:
                    done = self._edit(trees, t, st)
                except Exception as e:
                    import traceback
                    fn = [f.name for f in traceback.extract_tb(e.__traceback__) if "dendropy" in f.filename]
                    rec.violation("EDIT_FAILED", {"edit": st["kind"], "exception": type(e).__name__, "function": fn[-1] if fn else "harness"},
                                  "edit %s raised %s: %s" % (st["kind"], type(e).__name__, e))
                    raise StopRun()
                rec.ev("edit", st["kind"], t, done)
                if done:
                    last_edit = st["kind"]
                try:
                    rawtree.check_arborescence(trees[t])
                except rawtree.Malformed as m:
                    rec.probe("edit_left_malformed_tree")   # C03's subject; end this history
                    return
            else:
                self._query(rec, trees, foreign, st, last_edit)

    # ------------------------------------------------------------------
    def _edit(self, trees, t, st):
        tree = trees[t]
        nodes = rawtree.raw_nodes(tree)
        internals = [nd for nd in nodes if nd._child_nodes]
        inner = [nd for nd in internals if nd._parent_node is not None]
        k, k2 = st["k"], st["k2"]
        kind = st["kind"]
        if kind in ("graft_all", "prune_all"):
            # the shared leaf set changes: the same taxon joins / leaves all three trees (each at a place of its own)
            on_leaves = [nd.taxon for nd in nodes if not nd._child_nodes and nd.taxon is not None]
            if kind == "graft_all":
                unused = [tx for tx in self.ns if not any(tx is u for u in on_leaves)]
                if not unused:
                    return False
                tx = unused[k % len(unused)]
                for j, tr in enumerate(trees):
                    ints = [nd for nd in rawtree.raw_nodes(tr) if nd._child_nodes]
                    nd = ints[(k2 + j) % len(ints)]
                    ln = st["x"] if nd._child_nodes[0]._edge.length is not None else None
                    nd.new_child(taxon=tx, edge_length=ln)
                return True
            if len(on_leaves) <= 4:
                return False
            order = sorted(on_leaves, key=lambda tx: list(self.ns).index(tx))
            tx = order[0] if k % 3 == 0 else order[k2 % len(order)]
            for tr in trees:
                tr.prune_taxa([tx], update_bipartitions=False, suppress_unifurcations=True)
            return True
        if kind == "rotate":
            nd = internals[k % len(internals)]
            ch = list(nd._child_nodes)
            SimRNG(st["rng"]).shuffle(ch)
            nd.set_child_nodes(ch)
            return True
        if kind == "reseed":
            nd = internals[k % len(internals)]
            if len(tree._seed_node._child_nodes) == 1 and nd is not tree._seed_node:
                # a seed of outdegree one would be left behind as a leaf without a taxon
                tree.suppress_unifurcations()
                if not any(x is nd for x in rawtree.raw_nodes(tree)) or not nd._child_nodes:
                    return True     # the chosen node was spliced out: the clean-up is the edit
            if self.rooted:
                tree.reroot_at_node(nd, update_bipartitions=False)
            else:
                tree.reseed_at(nd, update_bipartitions=False)
            return True
        if kind == "collapse":
            if not inner:
                return False
            inner[k % len(inner)]._edge.collapse()
            return True
        if kind == "resolve":
            tree.resolve_polytomies(rng=SimRNG(st["rng"]) if k % 2 else None)
            return True
        if kind in ("spr", "nni"):
            cands = [nd for nd in nodes if nd._parent_node is not None and nd._parent_node._parent_node is not None]
            if not cands:
                return False
            nd = cands[k % len(cands)]
            p = nd._parent_node
            # regraft onto a node outside the pruned subtree that is not the old parent
            sub = set(id(x) for x in rawtree.raw_nodes(_Sub(nd)))
            chain = set()
            q_ = p
            while q_ is not None and len(q_._child_nodes) == 1:
                chain.add(id(q_))
                q_ = q_._parent_node
            targets = [x for x in nodes if id(x) not in sub and x is not p and x._child_nodes and id(x) not in chain]
            if not targets:
                return False
            tgt = targets[k2 % len(targets)]
            if len(p._child_nodes) <= 2 and p._parent_node is None:
                return False
            p.remove_child(nd)
            tgt.add_child(nd)
            # an emptied or unary parent is cleaned up the way a user would: suppress unifurcations
            # a parent (or a chain of unifurcations above it) left without children would be a leaf without taxon:
            # remove it, so that the leaf set stays the shared one
            while not p._child_nodes and p.taxon is None and p._parent_node is not None:
                q = p._parent_node
                q.remove_child(p)
                p = q
            tree.suppress_unifurcations()
            return True
        if kind == "set_length":
            cands = [nd for nd in nodes if nd._parent_node is not None]
            cands[k % len(cands)]._edge.length = st["x"]
            return True
        if kind in ("nudge_length", "tiny_length"):
            # differences far below any "noise" threshold a distance function might be tempted to apply
            cands = [nd for nd in nodes if nd._parent_node is not None and nd._edge.length is not None]
            if not cands:
                return False
            e = cands[k % len(cands)]._edge
            if kind == "nudge_length":
                e.length = e.length + [8e-6, 2e-6, 1e-7][k2 % 3]
            else:
                e.length = [1e-6, 5e-6, 1e-8][k2 % 3]
            return True
        if kind == "unifurcation":
            # split an edge by a node of outdegree one (the same tree, drawn with a unifurcation)
            cands = [nd for nd in nodes if nd._parent_node is not None]
            nd = cands[k % len(cands)]
            p = nd._parent_node
            idx = p._child_nodes.index(nd)
            p.remove_child(nd)
            mid = p.insert_new_child(idx)
            if nd._edge.length is not None:
                half = nd._edge.length / 2.0
                mid.edge.length = half
                nd._edge.length = nd._edge.length - half
            mid.add_child(nd)
            return True
        if kind == "root_length":
            # the seed edge may carry a length too (e.g. a Newick string ending in "):0.5;")
            nodes[0]._edge.length = [None, 0.5, 2.0, None][k % 4]
            return True
        if kind == "clear_length":
            cands = [nd for nd in nodes if nd._parent_node is not None]
            cands[k % len(cands)]._edge.length = None
            return True
        if kind == "scale":
            tree.scale_edges(st["x"])
            return True
        if kind == "encode":
            tree.encode_bipartitions()
            tree.bipartition_edge_map      # plant the caches
            tree.split_bitmask_edge_map
            return True
        if kind == "copy":
            trees[t] = dendropy.Tree(tree)
            return True
        raise ValueError(kind)

    # ------------------------------------------------------------------
    def _reference(self, x, y):
        rooted = bool(self.rooted)
        sx, px = rawtree.split_lengths(x, rooted=rooted, include_root_edge=True)
        sy, py = rawtree.split_lengths(y, rooted=rooted, include_root_edge=True)
        only_x = set(sx) - set(sy)
        only_y = set(sy) - set(sx)
        l1 = 0.0
        l2 = 0.0
        for s in set(sx) | set(sy):
            d = sx.get(s, 0) - sy.get(s, 0)
            l1 += abs(d)
            l2 += d * d
        return {"fp": len(only_y), "fn": len(only_x), "sd": len(only_x) + len(only_y), "wrf": l1, "euclid": math.sqrt(l2),
                "lengths_present": px and py, "only_x": only_x}

    def _call(self, kind, x, y):
        if kind == "symmetric_difference":
            return treecompare.symmetric_difference(x, y)
        if kind == "unweighted_robinson_foulds_distance":
            return treecompare.unweighted_robinson_foulds_distance(x, y)
        if kind == "false_positives_and_negatives":
            return treecompare.false_positives_and_negatives(x, y)
        if kind == "weighted_robinson_foulds_distance":
            return treecompare.weighted_robinson_foulds_distance(x, y)
        if kind == "euclidean_distance":
            return treecompare.euclidean_distance(x, y)
        if kind == "find_missing_bipartitions":
            return treecompare.find_missing_bipartitions(x, y)
        if kind == "Tree.symmetric_difference":
            return x.symmetric_difference(y)
        raise ValueError(kind)

    def _try(self, kind, x, y):
        try:
            return ("ok", self._call(kind, x, y))
        except ValueError as e:
            if "Edge length attribute is 'None'" in str(e):
                return ("refused", str(e))
            return ("error", e)
        except Exception as e:
            return ("error", e)

    def _query(self, rec, trees, foreign, st, last_edit):
        kind = st["kind"]
        a, b = st["a"] % 3, st["b"] % 3
        x, y = trees[a], trees[b]
        base = {"query": kind}
        if st["foreign"]:
            rec.fault("foreign_namespace_tree")
            try:
                self._call(kind, x, foreign)
            except dperror.TaxonNamespaceIdentityError:
                rec.ev("query", kind, "refused_foreign")
                return
            except Exception as e:
                rec.violation("FOREIGN_NOT_REFUSED", dict(base, exception=type(e).__name__),
                              "%s on trees over different namespaces raised %s instead of TaxonNamespaceIdentityError" % (kind, type(e).__name__))
                raise StopRun()
            rec.violation("FOREIGN_NOT_REFUSED", dict(base, exception=None), "%s accepted trees over different namespaces" % kind)
            raise StopRun()
        ref = self._reference(x, y)
        weighted = kind in ("weighted_robinson_foulds_distance", "euclidean_distance")
        r1 = self._try(kind, x, y)
        r2 = self._try(kind, y, x) if a != b else r1
        desc = "%s(%d,%d) after edit %s" % (kind, a, b, last_edit)
        for r in (r1, r2):
            if r[0] == "error":
                e = r[1]
                import traceback
                fn = [f.name for f in traceback.extract_tb(e.__traceback__) if "dendropy" in f.filename]
                rec.violation("QUERY_FAILED", dict(base, exception=type(e).__name__, function=fn[-1] if fn else "harness"),
                              "%s raised %s: %s" % (desc, type(e).__name__, e))
                raise StopRun()
        if r1[0] != r2[0]:
            rec.violation("ASYMMETRIC_DEFINEDNESS", base,
                          "%s is %s but the reversed call is %s (missing edge lengths must be refused for both orders or for neither)" % (
                              desc, r1[0], r2[0]))
            raise StopRun()
        if r1[0] == "refused":
            if ref["lengths_present"]:
                rec.violation("REFUSED_WITH_LENGTHS", base, "%s refused although every non-root edge has a length: %s" % (desc, r1[1][:100]))
                raise StopRun()
            rec.ev("query", kind, "refused")
            rec.probe("refused_missing_lengths")
            return
        v1, v2 = r1[1], r2[1]
        # value vs definition
        if kind in ("symmetric_difference", "Tree.symmetric_difference", "unweighted_robinson_foulds_distance"):
            if v1 != ref["sd"] or v2 != ref["sd"]:
                rec.violation("VALUE_WRONG", dict(base, stale=last_edit is not None and last_edit != "encode"),
                              "%s = %s (reversed %s), number of splits in exactly one tree = %s" % (desc, v1, v2, ref["sd"]))
                raise StopRun()
        elif kind == "false_positives_and_negatives":
            if tuple(v1) != (ref["fp"], ref["fn"]) or tuple(v2) != (ref["fn"], ref["fp"]):
                rec.violation("VALUE_WRONG", dict(base, stale=last_edit is not None and last_edit != "encode"),
                              "%s = %s (reversed %s), expected (%s, %s)" % (desc, v1, v2, ref["fp"], ref["fn"]))
                raise StopRun()
        elif kind == "find_missing_bipartitions":
            if len(v1) != ref["fn"]:
                rec.violation("VALUE_WRONG", dict(base, stale=last_edit is not None and last_edit != "encode"),
                              "%s returned %d bipartitions, %d splits of the reference tree are missing from the other" % (desc, len(v1), ref["fn"]))
                raise StopRun()
        else:
            want = ref["wrf"] if kind == "weighted_robinson_foulds_distance" else ref["euclid"]
            if not _rel(v1, v2):
                rec.violation("ASYMMETRIC_VALUE", base, "%s = %r but reversed = %r" % (desc, v1, v2))
                raise StopRun()
            if ref["lengths_present"] and not _rel(v1, want):
                rec.violation("VALUE_WRONG", dict(base, stale=last_edit is not None and last_edit != "encode"),
                              "%s = %r, the %s norm of the per-split length differences is %r" % (
                                  desc, v1, "L1" if kind.startswith("weighted") else "L2", want))
                raise StopRun()
        rec.ev("query", kind, repr(v1) if not isinstance(v1, list) else len(v1))
        if ref["sd"] or ref["wrf"]:
            rec.nontrivial((last_edit, kind, ref["sd"], ref["lengths_present"], self.rooted))
        if st["axioms"]:
            self._axioms(rec, trees, kind, a)

    def _axioms(self, rec, trees, kind, a):
        if kind in ("find_missing_bipartitions",):
            return
        x = trees[a]
        # identity under re-drawing: child-shuffled (and, unrooted, re-seeded) structural clone
        clone = _redraw(x, self.ns, self.rooted)
        r = self._try(kind, x, clone)
        if r[0] == "ok":
            v = r[1]
            z = (v == 0) if not isinstance(v, tuple) else (tuple(v) == (0, 0))
            if isinstance(v, float):
                z = abs(v) <= 1e-9
            if not z:
                rec.violation("NONZERO_TO_REDRAWING", {"query": kind}, "%s between a tree and a re-drawing of it = %r" % (kind, v))
                raise StopRun()
        elif r[0] == "error":
            rec.violation("QUERY_FAILED", {"query": kind, "exception": type(r[1]).__name__, "function": "redraw"},
                          "%s(tree, redrawing) raised %s" % (kind, r[1]))
            raise StopRun()
        # triangle inequality over the three trees
        if kind == "false_positives_and_negatives":
            return
        vals = {}
        for i, j in ((0, 1), (1, 2), (0, 2)):
            r = self._try(kind, trees[i], trees[j])
            if r[0] != "ok":
                return
            vals[(i, j)] = r[1]
        for (p, q, r_) in (((0, 2), (0, 1), (1, 2)), ((0, 1), (0, 2), (1, 2)), ((1, 2), (0, 1), (0, 2))):
            if vals[p] > vals[q] + vals[r_] + 1e-9 * max(1.0, vals[p]):
                rec.violation("TRIANGLE_INEQUALITY", {"query": kind}, "%s: d%s=%r > d%s+d%s=%r" % (kind, p, vals[p], q, r_, vals[q] + vals[r_]))
                raise StopRun()
        rec.probe("axioms_checked")


class _Sub(object):
    def __init__(self, nd):
        self._seed_node = nd


def _redraw(tree, ns, rooted):
    nodes = rawtree.raw_nodes(tree)
    clone = dendropy.Tree(taxon_namespace=ns)
    clone.is_rooted = tree.is_rooted
    mp = {id(nodes[0]): clone.seed_node}
    clone.seed_node.taxon = nodes[0].taxon
    clone.seed_node.edge.length = nodes[0]._edge.length
    for nd in nodes[1:]:
        c = mp[id(nd._parent_node)].new_child()
        c.taxon = nd.taxon
        c.edge.length = nd._edge.length
        mp[id(nd)] = c
    # reverse every child list; unrooted: re-seed at the last internal node
    for nd in rawtree.raw_nodes(clone):
        if len(nd._child_nodes) > 1:
            ch = list(nd._child_nodes)
            ch.reverse()
            nd.set_child_nodes(ch)
    if not rooted:
        internals = [nd for nd in rawtree.raw_nodes(clone) if nd._child_nodes and nd._parent_node is not None]
        if internals:
            clone.reseed_at(internals[-1], update_bipartitions=False, collapse_unrooted_basal_bifurcation=False)
    return clone


def make(name):
    return C04(name)
