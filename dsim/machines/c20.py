"""C20 — readers terminate on every input and report bad data as a parse error.

Simulated: the disk.  A valid document (template or written by the library's
own writer into SimFS) is damaged by one fault per step — truncation at a
crash point (K1, every offset of the document in sweep mode), one or two edits
(K2), a flipped bit (K3), token soup (K4) — and read back through a seeded
route under the step clock.
"""
import re
import sys

import dendropy
from dendropy.utility import error as dperror
from dendropy.datamodel import basemodel
from dendropy.dataio import ioservice

from ..engine import Machine
from ..model import docs, gen, rawtree
from ..seams import stepclock
from ..seams.simfs import SimFS, SimFile, patched_open

VARIANTS = ["c20:sweep", "c20:edits"]

KEYWORDS = ["BEGIN", "END", "MATRIX", "TREE", ";", "TAXA", "TREES", "CHARACTERS", "DATA", "DIMENSIONS", "FORMAT",
            "TAXLABELS", "TRANSLATE", "TITLE", "LINK", "NTAX", "NCHAR", "=", "SETS", "CHARSET", "INTERLEAVE", "ALL"]
ALPHABET = {
    "newick": list("(),:;[]'\" \n_&") + ["a", "B", "1", "0.5", "e-3", "[&R]", "[&U]", "''", "[&W 1/2]", "[&W 1/0]", "[&W x]", "0", "{", "}", "{3}", "{x}"],
    "nexus": list("(),:;[]'\"= \n{}-?_&#*\\/.") + ["a", "B", "1", "0", "0.5", "A", "C", "G", "T", "\u00b2", "\u0663"] + KEYWORDS,
    "phylip": list(" \n\t-?") + ["A", "C", "G", "T", "1", "0", "2", "10", "t1", "x"],
    "fasta": list(">\n -?;") + ["A", "C", "G", "T", "t1", "x"],
}

NEXUS_STATEMENTS = [
    "BEGIN TAXA;", "DIMENSIONS NTAX=3;", "DIMENSIONS NTAX=2;", "TAXLABELS a b c;", "TAXLABELS a b;", "END;", "ENDBLOCK;",
    "BEGIN CHARACTERS;", "BEGIN DATA;", "DIMENSIONS NCHAR=4;", "DIMENSIONS NTAX=3 NCHAR=4;", "DIMENSIONS NEWTAXA NTAX=3 NCHAR=2;",
    "FORMAT DATATYPE=DNA;", "FORMAT DATATYPE=DNA MISSING=? GAP=- INTERLEAVE;", "FORMAT DATATYPE=STANDARD SYMBOLS=\"01\";",
    "FORMAT DATATYPE=CONTINUOUS;", "FORMAT DATATYPE=PROTEIN MATCHCHAR=.;", "FORMAT INTERLEAVE=NO;", "FORMAT SYMBOLS=\"012\" MISSING=0;",
    "MATRIX a ACGT b ACGT c ACGT;", "MATRIX a AC b AC c AC;", "MATRIX a 0101 b 1{01}0(01) c ....;", "MATRIX\na AC\nb AC\n\na GT\nb GT\n;",
    "MATRIX a 0.5 1.5 b 2 3;", "MATRIX", "MATRIX;", "BEGIN TREES;", "TRANSLATE 1 a, 2 b, 3 c;", "TRANSLATE 1 a, 2 b;", "TRANSLATE;",
    "TREE t = (1,2,3);", "TREE t = ((a,b),c);", "TREE * t = [&R] ((a:1,b:2):3,c:4);", "TREE t = (a,b,d);", "TREE = (a,b);", "TREE t (a,b);",
    "TREE w1 = [&W 1/2] (a,b,c);", "TREE w2 = [&W 1/0] (a,b,c);", "TREE w3 = [&W 0/0] [&R] (a,(b,c));", "TREE w4 = [&W] (a,b,c);",
    "BEGIN SETS;", "CHARSET x = 1-3;", "CHARSET y = 1 2 .;", "CHARSET z = 1-.\\2;", "CHARSET s0 = 1-4\\0;", "CHARSET s1 = 2-1;", "CHARSET s2 = 1-3/0;", "CHARSET big = 1-4000000000;", "CHARSET big2 = 2-99999999999\\3;", "CHARSET w = all;", "CHARSET a1 = all 3;", "CHARSET a2 = ALL 2-3;", "CHARSET a3 = 1 all;", "CHARSET v = 9;", "CHARSET;",
    "LINK TAXA = t;", "LINK CHARACTERS = c;", "LINK FOO = bar;", "TITLE t;", "TITLE c;", "TITLE;", "BEGIN FOO;", "bar baz;", "BEGIN;",
    "[a comment]", "[unterminated comment", "'unterminated quote",
]

# the documented ValueErrors of the get() routes for a source that holds no data of the requested kind
OK_VALUE_ERRORS = ("No trees in data source", "No trees available at requested location",
                   "No character data in data source", "No character data available at requested location",
                   "Data source (at offset")      # "... is of type 'standard', but current CharacterMatrix is of type 'dna'"

MATRIX_TYPES = {"dna": "DnaCharacterMatrix", "protein": "ProteinCharacterMatrix", "standard": "StandardCharacterMatrix",
                "continuous": "ContinuousCharacterMatrix"}


def routes_for(doc):
    s = doc["schema"]
    r = []
    if doc["content"] in ("trees", "both"):
        r += ["tree_get", "treelist_get", "treelist_get_path", "treelist_get_file", "yield", "dataset_get", "treelist_read"]
    if doc["content"] in ("chars", "both"):
        r += ["matrix_get", "dataset_get", "matrix_get_path"]
    return r


def lib_written_doc(rng, size):
    """A document written by the library's own writers into SimFS."""
    ntax = rng.randint(2, max(2, size))
    style = rng.choice(["plain", "alpha", "under", "quoted", "spaced"])
    labs = gen.labels(rng, ntax, style)
    ns = dendropy.TaxonNamespace(labs)
    ds = dendropy.DataSet()
    ds.add_taxon_namespace(ns)
    what = rng.choice(["trees", "chars", "both"])
    schema = rng.choice(["nexus", "nexus", "newick"]) if what == "trees" else "nexus"
    data_type = None
    if what in ("trees", "both"):
        tl = dendropy.TreeList(taxon_namespace=ns)
        for _ in range(rng.randint(1, 3)):
            spec = gen.tree_spec(rng, labs, rng.choice(gen.SHAPES), rng.choice(["none", "int", "float", "mixed_none"]),
                                 internal_labels=rng.random() < 0.3)
            tl.append(gen.build_tree(dendropy, spec, ns, is_rooted=rng.choice([None, True, False])))
        ds.add_tree_list(tl)
    if what in ("chars", "both"):
        # not "standard": the NEXUS writer emits the SYMBOLS list in set order, which depends on PYTHONHASHSEED -
        # a document that differs from interpreter to interpreter cannot be part of a replayable plan
        data_type = rng.choice(["dna", "dna", "protein"])
        nchar = rng.randint(1, 10)
        if data_type == "dna":
            rows = gen.sequences(rng, labs, nchar, gen.DNA_SYMBOLS)
        elif data_type == "protein":
            rows = gen.sequences(rng, labs, nchar, "ACDEFGHIKLMNPQRSTVWY-?")
        else:
            rows = gen.sequences(rng, labs, nchar, "01?-", easy=0.8)
        cls = getattr(dendropy, MATRIX_TYPES[data_type])
        cm = cls.from_dict(rows, taxon_namespace=ns)
        ds.add_char_matrix(cm)
    fs = SimFS()
    kw = {}
    if schema == "nexus":
        kw["translate_tree_taxa"] = rng.random() < 0.4
        kw["suppress_taxa_blocks"] = False
        kw["simple"] = rng.random() < 0.2
    with patched_open(fs, [basemodel]):
        ds.write(path="/sim/out.%s" % schema, schema=schema, **kw)
    text = fs.files["/sim/out.%s" % schema]
    return {"schema": schema, "text": text, "content": what, "data_type": data_type,
            "template": "%s/lib-written/%s/%s" % (schema, what, style)}


def make_doc(rng, size):
    fam = rng.choice(["newick", "nexus", "nexus", "nexus", "phylip", "fasta"])
    if fam == "newick":
        return docs.newick_doc(rng, size)
    if fam == "nexus":
        d = docs.nexus_doc(rng, size)
        if d is None:
            d = lib_written_doc(rng, size)
        return d
    if fam == "phylip":
        return docs.phylip_doc(rng, size)
    return docs.fasta_doc(rng, size)


def apply_fault(text, step, schema):
    k = step["k"]
    if k == "intact":
        return text
    if k == "trunc":
        return text[:step["at"]]
    if k == "soup":
        return step["text"]
    if k == "flip":
        i = step["at"]
        if i >= len(text):
            return text
        c = chr((ord(text[i]) ^ (1 << step["bit"])) & 0x7f)
        return text[:i] + c + text[i + 1:]
    if k == "edit":
        for e in step["edits"]:
            i = min(e["at"], len(text))
            if e["op"] == "del":
                text = text[:i] + text[i + 1:]
            elif e["op"] == "ins":
                text = text[:i] + e["s"] + text[i:]
            elif e["op"] == "rep":
                text = text[:i] + e["s"] + text[i + 1:]
            elif e["op"] == "span":
                text = text[:i] + text[i + e["n"]:]
        return text
    raise ValueError(k)


def gen_edit(rng, n, schema):
    edits = []
    for _ in range(1 if rng.random() < 0.6 else 2):
        op = rng.choice(["del", "ins", "rep", "span", "kw"])
        at = rng.randrange(n + 1)
        if op == "del":
            edits.append({"op": "del", "at": at})
        elif op == "ins":
            edits.append({"op": "ins", "at": at, "s": rng.choice(ALPHABET[schema])})
        elif op == "rep":
            edits.append({"op": "rep", "at": at, "s": rng.choice(ALPHABET[schema])})
        elif op == "span":
            edits.append({"op": "span", "at": at, "n": rng.randint(2, 30)})
        else:
            edits.append({"op": "ins", "at": at, "s": " " + rng.choice(KEYWORDS) + " "})
    return {"k": "edit", "edits": edits}


_comment_re = re.compile(r"\[[^\[\]]*\]")
_dims_re = re.compile(r"(?i)\bdimensions\b([^;]*);")
_phylip_head = re.compile(r"^\s*(\d+)\s+(\d+)\s*$")


def declared_dimensions(schema, text):
    """Independent scan for the dimensions a document declares.  Returns
    (ntax or None, nchar or None) only when the scan is unambiguous, else None."""
    if schema == "phylip":
        lines = text.split("\n")
        for l in lines:
            if l.strip() == "":
                continue
            m = _phylip_head.match(l)
            if m:
                return int(m.group(1)), int(m.group(2))
            return None
        return None
    if schema == "nexus":
        if "'" in text or '"' in text:
            return None  # quoted material could hide keywords
        t = text
        for _ in range(4):
            t = _comment_re.sub(" ", t)
        if "[" in t or "]" in t:
            return None
        up = t.upper()
        if len(re.findall(r"\bMATRIX\b", up)) != 1 or len(re.findall(r"\bBEGIN\s+(CHARACTERS|DATA)\b", up)) != 1:
            return None
        found = []
        for m in _dims_re.finditer(t):
            body = m.group(1)
            mm = re.search(r"(?i)\bnchar\s*=\s*(\d+)\b", body)
            if mm:
                mt = re.search(r"(?i)\bntax\s*=\s*(\d+)\b", body)
                found.append((int(mt.group(1)) if mt else None, int(mm.group(1))))
        if len(found) != 1:
            return None
        if len(re.findall(r"\bNCHAR\b", up)) != 1:
            return None
        return found[0]
    return None


class C20(Machine):
    property_id = "C20"
    components = {
        "real": ["dendropy.dataio.tokenizer", "newickreader", "nexusreader", "nexusprocessing", "phylipreader", "fastareader",
                 "newickyielder", "nexusyielder", "ioservice", "Tree.get", "TreeList.get/read", "DataSet.get",
                 "CharacterMatrix.get", "Tree.yield_from_files", "writers (for library-written documents)"],
        "simulated": ["disk (SimFS: torn files, edited/flipped characters)", "logical time (step clock)"],
    }
    assumptions = [
        "a hang is a call that exceeds 50*t0+50000 step-clock ticks and again 20x that budget (t0 = ticks for the intact document)",
        "declared dimensions are compared only when an independent scan of the document finds exactly one unambiguous declaration",
        "documents are at most a few kB; recursion depth limit of the interpreter left at its default",
    ]

    def __init__(self, name):
        self.name = name
        self.mode = name.split(":")[1]
        if self.mode == "sweep":
            self.runs = {"quick": 640, "thorough": 16000}
            self.batch = 2
            self.rule = ("K1: every truncation offset of a seeded valid document read through a seeded route; distinct = "
                         "(document template, route, fault kind, outcome class) with the fault inside a statement")
        else:
            self.runs = {"quick": 8000, "thorough": 300000}
            self.batch = 20
            self.rule = ("K2/K3/K4: 30 seeded single/double edits, bit flips and token-soup texts per valid document; distinct = "
                         "(document template, route, fault kind, outcome class)")

    # ------------------------------------------------------------------
    def gen(self, rng, tier):
        size = rng.choice([2, 3, 4, 6]) if self.mode == "sweep" else rng.choice([2, 4, 6, 8])
        doc = make_doc(rng, size)
        route = rng.choice(routes_for(doc))
        kwargs = dict(doc.get("kwargs", {}))
        if doc["schema"] in ("newick", "nexus") and route not in ("matrix_get", "matrix_get_path"):
            if rng.random() < 0.3:
                kwargs["rooting"] = rng.choice(["force-rooted", "force-unrooted", "default-rooted", "default-unrooted"])
            if rng.random() < 0.2:
                kwargs["preserve_underscores"] = True
            if rng.random() < 0.2:
                kwargs["extract_comment_metadata"] = rng.random() < 0.5
            if rng.random() < 0.3:
                kwargs["store_tree_weights"] = True
            if rng.random() < 0.15:
                kwargs["is_parse_jplace_tokens"] = True     # edge numbers in braces ('{3}') are then part of the grammar
        text = doc["text"]
        steps = [{"k": "intact"}]
        if self.mode == "sweep":
            steps += [{"k": "trunc", "at": i} for i in range(len(text))]
        else:
            for _ in range(30):
                r = rng.random()
                if r < 0.6:
                    steps.append(gen_edit(rng, len(text), doc["schema"]))
                elif r < 0.75:
                    steps.append({"k": "flip", "at": rng.randrange(max(1, len(text))), "bit": rng.randrange(7)})
                elif r < 0.85:
                    steps.append({"k": "trunc", "at": rng.randrange(len(text) + 1)})
                elif r < 0.93:
                    n = rng.randint(1, 40)
                    pre = "#NEXUS\n" if doc["schema"] == "nexus" and rng.random() < 0.8 else ""
                    sep = rng.choice(["", " "])
                    steps.append({"k": "soup", "text": pre + sep.join(rng.choice(ALPHABET[doc["schema"]]) for _ in range(n))})
                elif r < 0.97 and doc["schema"] == "nexus":
                    # statement soup: syntactically plausible statements in an arbitrary order
                    if rng.random() < 0.4:
                        k = rng.randint(3, 14)
                        stm = [rng.choice(NEXUS_STATEMENTS) for _ in range(k)]
                    else:
                        # guided: a plausible skeleton (so that later statements find their context), then a few local mutations
                        stm = ["BEGIN TAXA;", "DIMENSIONS NTAX=3;", "TAXLABELS a b c;", "END;"]
                        if rng.random() < 0.8:
                            stm += ["BEGIN CHARACTERS;", rng.choice(["DIMENSIONS NCHAR=4;", "DIMENSIONS NCHAR=4;", "DIMENSIONS NTAX=2 NCHAR=4;", "DIMENSIONS NTAX=3 NCHAR=4;"]), rng.choice(["FORMAT DATATYPE=DNA;", "FORMAT DATATYPE=DNA MISSING=? GAP=- INTERLEAVE;",
                                                                                            "FORMAT DATATYPE=STANDARD SYMBOLS=\"01\";"]),
                                    rng.choice(["MATRIX a ACGT b ACGT c ACGT;", "MATRIX\na AC\nb AC\nc AC\n\na GT\nb GT\nc GT\n;", "MATRIX a 0101 b 1{01}0(01) c 0000;"]), "END;"]
                            stm += ["BEGIN SETS;"] + [rng.choice([x for x in NEXUS_STATEMENTS if x.startswith("CHARSET")]) for _ in range(rng.randint(1, 3))] + ["END;"]
                        stm += ["BEGIN TREES;"] + [rng.choice([x for x in NEXUS_STATEMENTS if x.startswith(("TRANSLATE", "TREE", "LINK", "TITLE"))])
                                                   for _ in range(rng.randint(1, 4))] + ["END;"]
                        for _ in range(rng.randint(0, 3)):
                            j = rng.randrange(len(stm))
                            m_ = rng.random()
                            if m_ < 0.3:
                                del stm[j]
                            elif m_ < 0.6:
                                stm.insert(j, rng.choice(NEXUS_STATEMENTS))
                            elif m_ < 0.8 and len(stm) > 1:
                                j2 = rng.randrange(len(stm))
                                stm[j], stm[j2] = stm[j2], stm[j]
                            else:
                                stm.insert(j, stm[j])
                    steps.append({"k": "soup", "text": "#NEXUS\n" + "\n".join(stm) + "\n"})
                elif rng.random() < 0.4 and doc["schema"] in ("newick", "nexus"):
                    # a long run of comments (a valid document: many files start with pages of comment lines)
                    n = rng.choice([300, 990, 1200, 4000])
                    run = rng.choice(["[c] ", "[c]\n", "[&a=1] ", "[c][d] "]) * n
                    if doc["schema"] == "nexus":
                        core = "#NEXUS\n" + (run if rng.random() < 0.5 else "") + "BEGIN TREES;\n" + (run if rng.random() < 0.5 else "") + "TREE t = " + \
                               (run if rng.random() < 0.3 else "") + "(a,b);\nEND;\n"
                    else:
                        core = run + "(a,b);" if rng.random() < 0.5 else "(a," + run + "b);"
                    steps.append({"k": "soup", "text": core})
                else:
                    # deep nesting: the node parser recurses once per level
                    n = rng.choice([300, 990, 1200, 4000])
                    core = "(" * n + "a" + ")" * n + ";"
                    if doc["schema"] == "nexus":
                        core = "#NEXUS\nBEGIN TREES;\nTREE t = " + core + "\nEND;\n"
                    elif doc["schema"] in ("phylip", "fasta"):
                        core = (">" if doc["schema"] == "fasta" else " 1 %d\n" % n) + "a" * n + "\n" + "ACGT" * (n // 4) + "\n"
                    steps.append({"k": "soup", "text": core})
        return {
            "config": {"schema": doc["schema"], "route": route, "kwargs": kwargs, "data_type": doc["data_type"],
                       "template": doc["template"], "content": doc["content"]},
            "initial": {"text": text},
            "steps": steps,
        }

    def sample_of(self, plan):
        p = dict(plan)
        p["steps"] = plan["steps"][:3] + ([{"...": "%d steps in total" % len(plan["steps"])}] if len(plan["steps"]) > 3 else [])
        return p

    # ------------------------------------------------------------------
    def read(self, cfg, text):
        """Perform the route; returns (trees, matrices)."""
        schema = cfg["schema"]
        route = cfg["route"]
        kw = dict(cfg["kwargs"])
        dt = cfg.get("data_type")
        if route in ("matrix_get", "matrix_get_path"):
            cls = getattr(dendropy, MATRIX_TYPES[dt or "dna"])
            if route == "matrix_get":
                m = cls.get(data=text, schema=schema, **kw)
            else:
                fs = SimFS()
                fs.put("/sim/doc", text)
                with patched_open(fs, [basemodel]):
                    m = cls.get(path="/sim/doc", schema=schema, **kw)
            return [], [m]
        if schema in ("phylip", "fasta"):
            kw["data_type"] = dt or "dna"
        if route == "tree_get":
            return [dendropy.Tree.get(data=text, schema=schema, **kw)], []
        if route == "treelist_get":
            return list(dendropy.TreeList.get(data=text, schema=schema, **kw)), []
        if route == "treelist_read":
            tl = dendropy.TreeList()
            tl.read(data=text, schema=schema, **kw)
            return list(tl), []
        if route == "treelist_get_path":
            fs = SimFS()
            fs.put("/sim/doc", text)
            with patched_open(fs, [basemodel]):
                return list(dendropy.TreeList.get(path="/sim/doc", schema=schema, **kw)), []
        if route == "treelist_get_file":
            return list(dendropy.TreeList.get(file=SimFile(None, "/sim/doc", text), schema=schema, **kw)), []
        if route == "yield":
            return list(dendropy.Tree.yield_from_files(files=[SimFile(None, "/sim/doc", text)], schema=schema, **kw)), []
        if route == "dataset_get":
            ds = dendropy.DataSet.get(data=text, schema=schema, **kw)
            trees = [t for tl in ds.tree_lists for t in tl]
            return trees, list(ds.char_matrices)
        raise ValueError(route)

    def attempt(self, cfg, text, budget):
        """One guarded read.  Returns (kind, detail, ticks, stack)."""
        clock = stepclock.get_clock()
        result = None
        exc = None
        g = clock.guard(budget)
        # the same recursion headroom whatever the depth of the caller's stack (worker, replay, minimiser)
        depth = 0
        f = sys._getframe()
        while f is not None:
            depth += 1
            f = f.f_back
        limit = sys.getrecursionlimit()
        sys.setrecursionlimit(depth + 1000)
        try:
            with g:
                try:
                    result = self.read(cfg, text)
                except stepclock.StepBudgetExceeded:
                    raise
                except Exception as e:
                    exc = e
        finally:
            sys.setrecursionlimit(limit)
        if g.expired:
            return "expired", g, g.used, None
        if exc is not None:
            return "raised", exc, g.used, None
        return "returned", result, g.used, None

    def run(self, plan, rec):
        cfg = plan["config"]
        text0 = plan["initial"]["text"]
        schema = cfg["schema"]
        t0 = None
        self._confirmed = set()
        for i, step in enumerate(plan["steps"]):
            rec.step_index = i
            rec.steps += 1
            text = apply_fault(text0, step, schema)
            kind = step["k"]
            if kind != "intact":
                rec.fault(kind)
            if t0 is None:
                # cost of the intact document (also when the 'intact' step was minimised away)
                k0, d0, used0, _ = self.attempt(cfg, text0, 2000000)
                t0 = used0
                rec.ticks += used0
                if kind == "intact":
                    self.judge(rec, cfg, text0, step, k0, d0, used0, 2000000, intact=True)
                    continue
            budget = 50 * t0 + 50000
            k, d, used, _ = self.attempt(cfg, text, budget)
            rec.ticks += used
            self.judge(rec, cfg, text, step, k, d, used, budget, intact=(kind == "intact"))

    # ------------------------------------------------------------------
    def judge(self, rec, cfg, text, step, k, d, used, budget, intact=False):
        schema = cfg["schema"]
        base = {"schema": schema}
        outcome = None
        if k == "expired":
            # confirm at 20x before calling it a hang (once a site has been
            # confirmed in this run, a later expiry inside the same function
            # is attributed to it without paying for the confirmation again)
            site1 = self._stack_of(d)
            known = [f for f in site1 if f in self._confirmed]
            if known:
                k2, d2, used2 = "expired", d, 0
                rec.probe("hang_attributed_to_confirmed_site")
            else:
                k2, d2, used2, _ = self.attempt(cfg, text, budget * 20)
            rec.ticks += used2
            if k2 == "expired":
                site2 = self._stack_of(d2)
                fn = known[-1] if known else _common_site(site1, site2)
                self._confirmed.add(fn)
                rec.violation("HANG", dict(base, function=fn),
                              "reader did not finish within %d ticks (20x budget; intact cost basis) in %s; fault=%s" % (
                                  budget * 20, fn, _short(step)))
                outcome = "hang"
            else:
                rec.probe("slow_but_terminating")
                k, d, used = k2, d2, used2
        if k == "raised":
            e = d
            if isinstance(e, dperror.DataParseError):
                outcome = "parse_error"
                if intact:
                    rec.violation("INTACT_REJECTED", dict(base, exception=type(e).__name__, function=_innermost(e)),
                                  "valid document rejected: %s: %s" % (type(e).__name__, _msg(e)))
            elif isinstance(e, ValueError) and type(e) is ValueError and any(str(e).startswith(p) for p in OK_VALUE_ERRORS):
                outcome = "no_data_error"
                if intact:
                    rec.violation("INTACT_REJECTED", dict(base, exception="ValueError", function=_innermost(e)),
                                  "valid document rejected: %s" % _msg(e))
            else:
                outcome = "internal_error"
                rec.violation("INTERNAL_ERROR", dict(base, exception=type(e).__name__, function=_innermost(e)),
                              "reader raised %s: %s (not a DataParseError); fault=%s" % (type(e).__name__, _msg(e), _short(step)))
        elif k == "returned":
            trees, mats = d
            outcome = "returned"
            for t in trees:
                try:
                    nodes_ = rawtree.check_arborescence(t)
                    seen_ = set()
                    for nd_ in nodes_:
                        if nd_.taxon is not None:
                            if id(nd_.taxon) in seen_:
                                raise rawtree.Malformed("one taxon on two nodes of a tree (the readers document duplicate taxa as an error)")
                            seen_.add(id(nd_.taxon))
                except rawtree.Malformed as m:
                    outcome = "bad_tree"
                    rec.violation("MALFORMED_TREE", dict(base, rule=str(m)), "reader returned a malformed tree: %s; fault=%s" % (m, _short(step)))
                    break
            if mats and cfg["kwargs"].get("ignore_invalid_chars"):
                # with ignore_invalid_chars the reader is asked to drop cells: shorter rows are the requested behaviour,
                # but no row can be LONGER than declared and the number of rows is still the declared one
                dims = declared_dimensions(schema, text)
                if dims is not None:
                    rec.probe("dimensions_compared_ignore_invalid")
                    ntax, nchar = dims
                    for m in mats:
                        lens = sorted(set(len(m[t]) for t in m))
                        bad = None
                        if nchar is not None and any(l > nchar for l in lens):
                            bad = "columns_beyond_declared"
                        elif ntax is not None and len(m) != ntax:
                            bad = "rows"
                        if bad:
                            outcome = "bad_matrix"
                            rec.violation("DIMENSIONS_CONTRADICTED", dict(base, what=bad, intact=bool(intact)),
                                          "document declares ntax=%s nchar=%s but the returned matrix (ignore_invalid_chars) has %d rows with lengths %s; fault=%s" % (
                                              ntax, nchar, len(m), lens, _short(step)))
                            break
            elif mats:
                dims = declared_dimensions(schema, text)
                if dims is not None:
                    rec.probe("dimensions_compared")
                    ntax, nchar = dims
                    for m in mats:
                        lens = sorted(set(len(m[t]) for t in m))
                        nrows = len(m)
                        bad = None
                        if nchar is not None and any(l != nchar for l in lens):
                            bad = "columns"
                        elif ntax is not None and nrows != ntax:
                            bad = "rows"
                        elif nchar is not None and nrows == 0 and nchar > 0 and ntax:
                            bad = "rows"
                        if bad:
                            outcome = "bad_matrix"
                            rec.violation("DIMENSIONS_CONTRADICTED", dict(base, what=bad, intact=bool(intact)),
                                          "document declares ntax=%s nchar=%s but the returned matrix has %d rows with lengths %s; fault=%s" % (
                                              ntax, nchar, nrows, lens, _short(step)))
                            break
        rec.ev("step", step["k"], outcome)
        if not intact and outcome is not None:
            rec.nontrivial((cfg["template"], cfg["route"], step["k"], outcome))

    @staticmethod
    def _stack_of(guard):
        # frames of the tokenizers are leaves of every reader loop: the loop
        # that fails to make progress is in the reader frame above them
        return [f for f in (guard.stack or []) if not f.startswith("tokenizer:") and f not in _TOKENIZER_FNS]

    # ------------------------------------------------------------------
    def simplify(self, plan):
        """Shorter documents / simpler faults."""
        import copy
        text = plan["initial"]["text"]
        steps = plan["steps"]
        # turn the surviving fault into an explicit soup text, then shrink the text
        if len(steps) == 1 and steps[0]["k"] != "soup":
            cand = copy.deepcopy(plan)
            cand["steps"] = [{"k": "soup", "text": apply_fault(text, steps[0], plan["config"]["schema"])}]
            cand["initial"]["text"] = ""
            yield cand
        if len(steps) == 1 and steps[0]["k"] == "soup":
            s = steps[0]["text"]
            n = len(s)
            chunk = max(1, n // 2)
            while chunk >= 1:
                i = 0
                while i < n:
                    cand = copy.deepcopy(plan)
                    cand["steps"] = [{"k": "soup", "text": s[:i] + s[i + chunk:]}]
                    yield cand
                    i += chunk
                if chunk == 1:
                    break
                chunk //= 2
        if plan["config"]["kwargs"]:
            for k in list(plan["config"]["kwargs"]):
                if k in ("strict", "interleaved", "data_type", "ignore_invalid_chars"):
                    continue
                cand = copy.deepcopy(plan)
                del cand["config"]["kwargs"][k]
                yield cand
        if plan["config"]["route"] not in ("treelist_get", "matrix_get", "dataset_get"):
            for r in ("treelist_get", "matrix_get", "dataset_get"):
                cand = copy.deepcopy(plan)
                cand["config"]["route"] = r
                yield cand


_TOKENIZER_FNS = set("nexusprocessing:" + f for f in (
    "next_token_ucase", "require_next_token_ucase", "cast_current_token_to_ucase", "process_and_clear_comments_for_item",
    "process_comments_for_item", "__next__", "next_token", "require_next_token"))


def _short(step):
    s = repr(step)
    return s if len(s) < 160 else s[:157] + "..."


def _msg(e):
    s = str(e)
    return s if len(s) < 200 else s[:197] + "..."


def _dendropy_frames(tb):
    import os
    prefix = os.path.dirname(os.path.abspath(dendropy.__file__))
    out = []
    while tb is not None:
        co = tb.tb_frame.f_code
        if co.co_filename.startswith(prefix):
            out.append("%s:%s" % (os.path.basename(co.co_filename)[:-3], co.co_name))
        tb = tb.tb_next
    return out


def _innermost(e):
    fr = _dendropy_frames(e.__traceback__)
    if isinstance(e, RecursionError) and fr:
        # where the limit is finally hit is an accident of the stack depth; name the function that recurses
        count = {}
        for f in fr:
            count[f] = count.get(f, 0) + 1
        return sorted(count, key=lambda f: (-count[f], f))[0]
    return fr[-1] if fr else "?"


def _common_site(s1, s2):
    n = 0
    while n < len(s1) and n < len(s2) and s1[n] == s2[n]:
        n += 1
    if n == 0:
        return (s1 or ["?"])[-1]
    return s1[n - 1]


def make(name):
    return C20(name)
