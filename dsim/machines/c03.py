"""C03 — trees stay well-formed arborescences under every history of mutating
operations.

Simulated: the operation history (seeded sequences of public mutators with
seeded targets and flag settings, admissible by default, deliberately
inadmissible at a low rate = the fault dimension), the random source of the
randomised mutators (SimRNG), object addresses (SimAddr), logical time (step
clock, so that a cycle created by a mutator shows up as a budget overrun rather
than a hung harness).

Oracle after every step: raw arborescence + iterator agreement; leaf-taxon
multiset rule; bipartition freshness against a freshly encoded structural
clone; no exception for admissible arguments.
"""
import dendropy
from dendropy.utility import error as dperror

from ..engine import Machine, StopRun, Recorder
from ..model import gen, rawtree
from ..seams import stepclock
from ..seams.simrng import SimRNG
from ..seams.simaddr import SimAddresses

BUDGET = 300000
_CONFIRMED = {}

UB_OPS = set(["reseed_at", "reroot_at_node", "reroot_at_edge", "reroot_at_midpoint", "to_outgroup_position", "prune_taxa",
              "prune_taxa_with_labels", "retain_taxa", "retain_taxa_with_labels", "filter_leaf_nodes", "prune_subtree",
              "prune_leaves_without_taxa", "collapse_unweighted_edges", "resolve_polytomies", "suppress_unifurcations",
              "randomly_reorient", "prune_nodes"])

OPS = ["reseed_at", "reseed_at", "reroot_at_node", "reroot_at_edge", "reroot_at_midpoint", "to_outgroup_position",
       "prune_taxa", "prune_taxa_with_labels", "retain_taxa", "retain_taxa_with_labels", "filter_leaf_nodes", "prune_subtree",
       "prune_leaves_without_taxa", "prune_nodes", "collapse_unweighted_edges", "collapse_basal_bifurcation", "deroot",
       "polytomize_root", "edge_collapse", "collapse_clade", "collapse_neighborhood", "resolve_polytomies",
       "suppress_unifurcations", "ladderize", "reorder", "randomly_rotate", "randomly_reorient", "shuffle_taxa",
       "encode_bipartitions", "encode_bipartitions", "update_bipartitions", "set_is_rooted", "scale_edges",
       "add_child", "insert_child", "new_child", "insert_new_child", "remove_child", "set_child_nodes", "clear_child_nodes",
       "reattach", "set_seed_node", "prune_internal_taxa"]
FAULT_OPS = ["prune_subtree_seed", "edge_collapse_leaf", "reseed_foreign", "prune_subtree_foreign", "filter_all",
             "remove_child_nonchild", "add_child_attached", "prune_all_taxa", "reseed_at_leaf", "reroot_at_leaf", "reroot_at_leaf_edge"]


class Hang(Exception):
    def __init__(self, step, stack):
        self.step = step
        self.stack = stack


class C03(Machine):
    name = "c03"
    property_id = "C03"
    runs = {"quick": 80000, "thorough": 1500000}
    batch = 400
    rule = ("seeded start tree (1-30 leaves, all shape classes, all rooting states, length patterns, taxa on internal nodes, namespace "
            "larger than the leaf set) and 1-40 seeded mutator calls with all flag settings; distinct = (operation-name sequence, "
            "shape class) of length >= 2 in which at least one step changed the raw structure")
    components = {"real": ["Tree / Node / Edge mutators", "Tree.encode_bipartitions", "all node/edge iterators", "TaxonNamespace"],
                  "simulated": ["operation history incl. inadmissible arguments", "random source of randomised mutators (SimRNG)",
                                "object addresses (SimAddr)", "logical time (step clock)"]}
    assumptions = ["arguments are admissible per the docstrings (target in the tree, internal node/edge where required, at least one leaf "
                   "with a taxon survives a prune, update_bipartitions only on trees whose leaves all carry taxa); everything the "
                   "docstrings leave open is treated as inadmissible, for which only 'raises or completes, tree still well formed' is demanded",
                   "bipartition freshness is judged against a structural clone (same taxa objects, namespace, rooting flag) encoded without restructuring"]

    def __init__(self, name="c03"):
        self.name = name

    # ------------------------------------------------------------------
    def gen(self, rng, tier):
        deep = tier == "thorough"
        long_ = rng.random() < (0.5 if deep else 0.3)
        n = rng.randint(1, 8) if not long_ else rng.randint(5, 45 if deep else 30)
        labs = gen.labels(rng, n, "plain")
        shape = rng.choice(gen.SHAPES)
        lengths = rng.choice(["none", "zero", "int", "float", "mixed_none", "dyadic", "float", "int"])
        spec = gen.tree_spec(rng, labs, shape, lengths, internal_labels=rng.random() < 0.2)
        cfg = {"labels": labs, "extra_taxa": rng.randint(0, 3), "is_rooted": rng.choice([True, False, None]),
               "internal_taxa": rng.random() < 0.15, "shape": shape, "addr_seed": rng.getrandbits(32)}
        steps = []
        for _ in range(rng.randint(1, 90 if deep else 40) if long_ else rng.randint(1, 14)):
            fault = rng.random() < 0.08
            op = rng.choice(FAULT_OPS) if fault else rng.choice(OPS)
            steps.append({"op": op, "k": rng.randrange(10 ** 6), "k2": rng.randrange(10 ** 6), "mask": rng.getrandbits(32),
                          "ub": rng.random() < 0.5, "su": rng.random() < 0.7, "cb": rng.random() < 0.7,
                          "flag": rng.random() < 0.5, "rng": rng.choice([None, rng.getrandbits(32)]),
                          "val": rng.choice([True, False, None]), "len1": rng.choice([None, 0.5, 1, 0.0]), "len2": rng.choice([None, 2.0, 1]),
                          "x": rng.choice([0.0, 1e-7, 0.5, 2.0, 10.0]), "dist": rng.randint(0, 3)})
        return {"config": cfg, "initial": {"tree": spec}, "steps": steps}

    def simplify(self, plan):
        import copy
        for sp in gen.shrink_specs(plan["initial"]["tree"]):
            cand = copy.deepcopy(plan)
            cand["initial"]["tree"] = sp
            cand["config"]["labels"] = [l for l in gen.spec_leaves(sp) if l is not None]
            yield cand
        cfg = plan["config"]
        for k, v in (("extra_taxa", 0), ("internal_taxa", False)):
            if cfg.get(k) != v:
                cand = copy.deepcopy(plan)
                cand["config"][k] = v
                yield cand

    # ------------------------------------------------------------------
    def run(self, plan, rec):
        try:
            self._run(plan, rec, 1)
        except Hang as h:
            st = plan["steps"][h.step]
            known = _CONFIRMED.get(st["op"])
            if known is not None and known in h.stack:
                rec.step_index = h.step
                rec.violation("HANG", {"op": st["op"], "function": known},
                              "%s did not finish within %d ticks in %s (site confirmed at 20x earlier)" % (st["op"], BUDGET, known))
                return
            rec2 = Recorder()
            try:
                self._run(plan, rec2, 20)
                rec.probe("slow_but_terminating")
            except Hang as h2:
                if h2.step == h.step:
                    n = 0
                    while n < len(h.stack) and n < len(h2.stack) and h.stack[n] == h2.stack[n]:
                        n += 1
                    site = h.stack[n - 1] if n else (h.stack or ["?"])[-1]
                    _CONFIRMED[st["op"]] = site
                    rec.step_index = h.step
                    rec.violation("HANG", {"op": st["op"], "function": site},
                                  "%s (or the traversals checked after it) did not finish within %d ticks in %s" % (st["op"], 20 * BUDGET, site))
            except StopRun:
                pass

    def _run(self, plan, rec, scale):
        cfg = plan["config"]
        with SimAddresses(cfg["addr_seed"]):
            self._run2(plan, rec, scale)

    def _run2(self, plan, rec, scale):
        cfg = plan["config"]
        clock = stepclock.get_clock()
        labs = cfg["labels"]
        ns = dendropy.TaxonNamespace(labs + ["extra%d" % i for i in range(cfg["extra_taxa"])])
        tree = gen.build_tree(dendropy, plan["initial"]["tree"], ns, is_rooted=cfg["is_rooted"])
        if cfg["internal_taxa"]:
            k = 0
            for nd in rawtree.raw_nodes(tree):
                if nd._child_nodes and nd._parent_node is not None and k < 2:
                    nd.taxon = ns.require_taxon(label="int%d" % k)
                    k += 1
        other_ns = dendropy.TaxonNamespace(["o1", "o2", "o3"])
        other = gen.build_tree(dendropy, ["r", None, [["o1", 1.0, []], [None, 1.0, [["o2", 1.0, []], ["o3", 1.0, []]]]]], other_ns, is_rooted=True)
        self.tree, self.ns, self.other = tree, ns, other
        self.detached = []
        self.current = False
        self.fresh = 0
        self._check(rec, None, "init", set(), set(), None, clock, scale, 0)
        names = []
        changed_any = False
        for i, st in enumerate(plan["steps"]):
            rec.step_index = i
            rec.steps += 1
            op = st["op"]
            before_nodes = rawtree.raw_nodes(tree)
            before_struct = _struct_key(tree)
            L = [nd.taxon for nd in before_nodes if not nd._child_nodes and nd.taxon is not None]
            I = set(id(nd.taxon) for nd in before_nodes if nd._child_nodes and nd.taxon is not None)
            alltaxa_before = sorted(id(nd.taxon) for nd in before_nodes if nd.taxon is not None)
            prep = self._prepare(st, op, before_nodes, rec)
            if prep is None:
                rec.ev("skip", op)
                continue
            call, admissible, R, A, ub, structural = prep
            was_current = self.current
            g = clock.guard(BUDGET * scale)
            exc = None
            with g:
                try:
                    call()
                except stepclock.StepBudgetExceeded:
                    raise
                except Exception as e:
                    exc = e
            rec.ticks += g.used
            if g.expired:
                raise Hang(i, list(g.stack or []))
            if not admissible:
                rec.fault("inadmissible_argument")
                if exc is None:
                    # completed although inadmissible: the tree must still be well formed, but what it now
                    # contains (e.g. nodes of another tree) is outside every later operation's documented domain
                    rec.ev("op", op, "completed_inadmissible")
                    self._check(rec, st, op, R, A, (L, I, alltaxa_before, admissible, False), clock, scale, i, False)
                    rec.probe("inadmissible_call_completed")
                    return
            if exc is not None and admissible:
                import traceback
                fn = [f.name for f in traceback.extract_tb(exc.__traceback__) if "dendropy" in f.filename]
                rec.violation("OP_FAILED", {"op": op, "exception": type(exc).__name__, "function": fn[-1] if fn else "harness"},
                              "%s with admissible arguments raised %s: %s (flags ub=%s su=%s cb=%s; tree before: %s)" % (
                                  op, type(exc).__name__, exc, st["ub"], st["su"], st["cb"], before_struct[:200]))
                raise StopRun()
            rec.ev("op", op, "raised" if exc is not None else "ok")
            names.append(op)
            # freshness bookkeeping
            if exc is None:
                if op in ("encode_bipartitions", "update_bipartitions"):
                    self.current = True
                elif ub:
                    pass      # stays as it was: current -> must still be fresh (checked below)
                elif structural:
                    self.current = False
            else:
                self.current = False
            check_fresh = exc is None and admissible and (op in ("encode_bipartitions", "update_bipartitions") or (ub and was_current))
            self._check(rec, st, op, R, A, (L, I, alltaxa_before, admissible, exc is not None), clock, scale, i, check_fresh)
            if _struct_key(tree) != before_struct:
                changed_any = True
        if len(names) >= 2 and changed_any:
            rec.nontrivial((names, cfg["shape"]))

    # ------------------------------------------------------------------
    def _fresh_node(self, st, with_taxon):
        nd = dendropy.Node(edge_length=st["len1"])
        self.fresh += 1
        if with_taxon:
            used = set(id(n.taxon) for n in rawtree.raw_nodes(self.tree) if n.taxon is not None)
            for t in self.ns:
                if id(t) not in used:
                    nd.taxon = t
                    break
            else:
                nd.taxon = self.ns.new_taxon(label="fresh%d" % self.fresh)
        return nd

    def _prepare(self, st, op, nodes, rec):
        """Returns (call, admissible, R, A, update_bipartitions, structural) or None to skip."""
        tree = self.tree
        k, k2 = st["k"], st["k2"]
        leaves = [nd for nd in nodes if not nd._child_nodes]
        internals = [nd for nd in nodes if nd._child_nodes]
        taxleaves = [nd for nd in leaves if nd.taxon is not None]
        all_leaves_have_taxa = len(taxleaves) == len(leaves)
        ub = bool(st["ub"]) and op in UB_OPS and all_leaves_have_taxa
        su, cb = st["su"], st["cb"]
        R, A = set(), set()
        seed = tree._seed_node

        def pick(lst, kk=None):
            return lst[(k if kk is None else kk) % len(lst)]

        def subset(lst, keep_one=True):
            sel = [x for i, x in enumerate(lst) if (st["mask"] >> (i % 32)) & 1]
            if keep_one and len(sel) == len(lst) and lst:
                sel = sel[:-1]
            return sel

        def leaves_below(nd):
            out = []
            stack = [nd]
            while stack:
                x = stack.pop()
                if x._child_nodes:
                    stack.extend(x._child_nodes)
                else:
                    out.append(x)
            return out

        if op in ("reseed_at", "reroot_at_node"):
            if not internals:
                return None
            nd = pick(internals)
            if op == "reseed_at":
                return (lambda: tree.reseed_at(nd, update_bipartitions=ub, collapse_unrooted_basal_bifurcation=cb, suppress_unifurcations=su),
                        True, R, A, ub, True)
            return (lambda: tree.reroot_at_node(nd, update_bipartitions=ub, suppress_unifurcations=su, collapse_unrooted_basal_bifurcation=cb),
                    True, R, A, ub, True)
        if op == "reroot_at_edge":
            cands = [nd for nd in internals if nd._parent_node is not None]
            if not cands:
                return None
            e = pick(cands)._edge
            return (lambda: tree.reroot_at_edge(e, length1=st["len1"], length2=st["len2"], update_bipartitions=ub, suppress_unifurcations=su),
                    True, R, A, ub, True)
        if op == "reroot_at_midpoint":
            if len(taxleaves) < 2 or not all_leaves_have_taxa:
                return None
            # strictly positive lengths: with zero-length edges the midpoint can fall on a leaf node, which the
            # docstring leaves open (conservative: not generated)
            if any(nd._edge.length is None or not (nd._edge.length > 0) for nd in nodes if nd._parent_node is not None):
                return None
            if any(nd.taxon is not None for nd in internals) or len(set(id(nd.taxon) for nd in taxleaves)) != len(taxleaves):
                return None
            return (lambda: tree.reroot_at_midpoint(update_bipartitions=ub, suppress_unifurcations=su, collapse_unrooted_basal_bifurcation=cb),
                    True, R, A, ub, True)
        if op == "to_outgroup_position":
            cands = [nd for nd in nodes if nd._parent_node is not None]
            if not cands:
                return None
            nd = pick(cands)
            return (lambda: tree.to_outgroup_position(nd, update_bipartitions=ub, suppress_unifurcations=su), True, R, A, ub, True)
        if op in ("prune_taxa", "prune_taxa_with_labels", "retain_taxa", "retain_taxa_with_labels", "filter_leaf_nodes"):
            if len(taxleaves) < 1:
                return None
            drop = subset(taxleaves)
            if len(drop) == len(taxleaves):
                drop = drop[:-1]
            R = set(id(nd.taxon) for nd in drop)
            droptaxa = [nd.taxon for nd in drop]
            keep_taxa = [t for t in self.ns if id(t) not in R]
            # "any iterable" is what the docstrings promise: list, set, tuple, one-shot iterator
            form = [list, set, tuple, iter][k2 % 4]
            if op == "prune_taxa":
                return (lambda: tree.prune_taxa(form(droptaxa), update_bipartitions=ub, suppress_unifurcations=su), True, R, A, ub, True)
            if op == "prune_taxa_with_labels":
                return (lambda: tree.prune_taxa_with_labels([t.label for t in droptaxa], update_bipartitions=ub, suppress_unifurcations=su),
                        True, R, A, ub, True)
            if op == "retain_taxa":
                return (lambda: tree.retain_taxa(form(keep_taxa), update_bipartitions=ub, suppress_unifurcations=su), True, R, A, ub, True)
            if op == "retain_taxa_with_labels":
                return (lambda: tree.retain_taxa_with_labels([t.label for t in keep_taxa], update_bipartitions=ub, suppress_unifurcations=su),
                        True, R, A, ub, True)
            # filter_leaf_nodes: ancestors of a passing leaf never become leaves, so the seed is never reached
            keep_ids = set(id(nd) for nd in taxleaves if id(nd.taxon) not in R)
            R2 = set(id(nd.taxon) for nd in leaves if nd.taxon is not None and id(nd) not in keep_ids)
            return (lambda: tree.filter_leaf_nodes(lambda x: id(x) in keep_ids, recursive=st["flag"], update_bipartitions=ub and st["flag"],
                                                   suppress_unifurcations=su), True, R2, A, ub and st["flag"], True)
        if op in ("prune_subtree", "prune_nodes", "remove_child", "clear_child_nodes"):
            cands = [nd for nd in nodes if nd._parent_node is not None]
            if op == "clear_child_nodes":
                cands = internals
            if not cands:
                return None
            nd = pick(cands)
            if op == "prune_subtree":
                below = leaves_below(nd)
                if len(below) == len(leaves):
                    return None
                R = set(id(x.taxon) for x in below if x.taxon is not None)
                return (lambda: tree.prune_subtree(nd, update_bipartitions=ub, suppress_unifurcations=su), True, R, A, ub, True)
            if op == "prune_nodes":
                second = pick(cands, k2)
                lst = [nd] if second is nd else [nd, second]
                # keep the list free of ancestor/descendant pairs and keep one leaf outside
                if len(lst) == 2:
                    anc = lst[1]
                    while anc is not None and anc is not lst[0]:
                        anc = anc._parent_node
                    anc2 = lst[0]
                    while anc2 is not None and anc2 is not lst[1]:
                        anc2 = anc2._parent_node
                    if anc is not None or anc2 is not None:
                        lst = lst[:1]
                below = sum((leaves_below(x) for x in lst), [])
                if len(below) == len(leaves):
                    return None
                R = set(id(x.taxon) for x in below if x.taxon is not None)
                # asked to update the encoding only when no parent is left without children (a leaf without a taxon)
                gone = set(id(x) for x in lst)
                ubn = ub and all(any(id(c) not in gone for c in x._parent_node._child_nodes) for x in lst)
                if ubn:
                    return (lambda: tree.prune_nodes(lst, update_bipartitions=True, suppress_unifurcations=su), True, R, A, True, True)
                return (lambda: tree.prune_nodes(lst), True, R, A, False, True)
            if op == "remove_child":
                below = leaves_below(nd)
                R = set(id(x.taxon) for x in below if x.taxon is not None)
                p = nd._parent_node
                sup = st["flag"] and not tree.is_rooted and len(leaves) - len(below) >= 2

                def do():
                    p.remove_child(nd, suppress_unifurcations=sup)
                    self.detached.append(nd)
                return (do, True, R, A, False, True)
            below = leaves_below(nd)
            R = set(id(x.taxon) for x in below if x.taxon is not None)
            return (lambda: nd.clear_child_nodes(), True, R, A, False, True)
        if op == "prune_leaves_without_taxa":
            if not taxleaves:
                return None
            return (lambda: tree.prune_leaves_without_taxa(recursive=True, update_bipartitions=ub, suppress_unifurcations=su), True, R, A, ub, True)
        if op == "collapse_unweighted_edges":
            return (lambda: tree.collapse_unweighted_edges(threshold=st["x"], update_bipartitions=ub), True, R, A, ub, True)
        if op in ("collapse_basal_bifurcation", "deroot", "polytomize_root"):
            if op == "deroot":
                return (lambda: tree.deroot(), True, R, A, False, True)
            fn = getattr(tree, op)
            return (lambda: fn(set_as_unrooted_tree=st["flag"]), True, R, A, False, True)
        if op == "edge_collapse":
            cands = [nd for nd in internals if nd._parent_node is not None]
            if not cands:
                return None
            e = pick(cands)._edge
            return (lambda: e.collapse(adjust_collapsed_head_children_edge_lengths=st["flag"]), True, R, A, False, True)
        if op == "collapse_clade":
            nd = pick(nodes)
            return (lambda: nd.collapse_clade(), True, R, A, False, True)
        if op == "collapse_neighborhood":
            if not internals:
                return None
            nd = pick(internals)
            return (lambda: nd.collapse_neighborhood(st["dist"]), True, R, A, False, True)
        if op == "resolve_polytomies":
            r = SimRNG(st["rng"]) if st["rng"] is not None else None
            return (lambda: tree.resolve_polytomies(limit=2, update_bipartitions=ub, rng=r), True, R, A, ub, True)
        if op == "suppress_unifurcations":
            return (lambda: tree.suppress_unifurcations(update_bipartitions=ub), True, R, A, ub, True)
        if op == "ladderize":
            return (lambda: tree.ladderize(ascending=st["flag"]), True, R, A, False, False)
        if op == "reorder":
            return (lambda: tree.reorder(ascending=st["flag"]), True, R, A, False, False)
        if op == "randomly_rotate":
            r = SimRNG(st["rng"] or 1)
            return (lambda: tree.randomly_rotate(rng=r), True, R, A, False, False)
        if op == "randomly_reorient":
            if len(leaves) < 3:
                return None
            r = SimRNG(st["rng"] or 1)
            return (lambda: tree.randomly_reorient(rng=r, update_bipartitions=ub), True, R, A, ub, True)
        if op == "shuffle_taxa":
            r = SimRNG(st["rng"] or 1)
            return (lambda: tree.shuffle_taxa(include_internal_nodes=st["flag"], rng=r), True, R, A, False, True)
        if op in ("encode_bipartitions", "update_bipartitions"):
            if not all_leaves_have_taxa:
                return None
            if op == "encode_bipartitions":
                return (lambda: tree.encode_bipartitions(suppress_unifurcations=su, collapse_unrooted_basal_bifurcation=cb), True, R, A, False, True)
            return (lambda: tree.update_bipartitions(suppress_unifurcations=su, collapse_unrooted_basal_bifurcation=cb), True, R, A, False, True)
        if op == "set_is_rooted":
            def do():
                tree.is_rooted = st["val"]
            return (do, True, R, A, False, True)
        if op == "scale_edges":
            return (lambda: tree.scale_edges(st["x"] if st["x"] else 2), True, R, A, False, False)
        if op in ("add_child", "insert_child", "new_child", "insert_new_child"):
            p = pick(nodes)
            idx = k2 % (len(p._child_nodes) + 1)
            if not p._child_nodes and p.taxon is not None:
                R.add(id(p.taxon))      # the operation is asked to turn this leaf into an internal node
            if op in ("add_child", "insert_child"):
                nd = self._fresh_node(st, with_taxon=st["flag"])
                if nd.taxon is not None:
                    A.add(id(nd.taxon))
                if op == "add_child":
                    return (lambda: p.add_child(nd), True, R, A, False, True)
                return (lambda: p.insert_child(idx, nd), True, R, A, False, True)
            if op == "new_child":
                return (lambda: p.new_child(edge_length=st["len1"]), True, R, A, False, True)
            return (lambda: p.insert_new_child(idx, edge_length=st["len1"]), True, R, A, False, True)
        if op == "set_seed_node":
            # documented: the new seed and its descendants are spliced out of their context into this tree
            cands = [nd for nd in internals if nd._parent_node is not None]
            if not cands:
                return None
            nd = pick(cands)
            below = set(id(x) for x in leaves_below(nd))
            R = set(id(x.taxon) for x in leaves if x.taxon is not None and id(x) not in below)
            # taxa on internal nodes outside the subtree go too; they never were leaf taxa
            def do():
                import warnings
                with warnings.catch_warnings():
                    warnings.simplefilter("ignore")
                    tree.seed_node = nd
            return (do, True, R, A, False, True)
        if op == "prune_internal_taxa":
            # taxa that sit on internal nodes, removed with the documented flag
            cands = [nd for nd in internals if nd.taxon is not None and nd._parent_node is not None]
            if not cands:
                return None
            nd = pick(cands)
            below = leaves_below(nd)
            inside = set(id(x) for x in below)
            if not any(id(x) not in inside for x in taxleaves):
                return None     # at least one leaf with a taxon must survive (prune_leaves_without_taxa runs afterwards)
            R = set(id(x.taxon) for x in below if x.taxon is not None)
            R.add(id(nd.taxon))
            return (lambda: tree.prune_taxa([nd.taxon], update_bipartitions=ub, suppress_unifurcations=su,
                                            is_apply_filter_to_leaf_nodes=False, is_apply_filter_to_internal_nodes=True), True, R, A, ub, True)
        if op == "set_child_nodes":
            if not internals:
                return None
            nd = pick(internals)
            ch = list(nd._child_nodes)
            r = SimRNG(k2)
            r.shuffle(ch)
            return (lambda: nd.set_child_nodes(ch), True, R, A, False, True)
        if op == "reattach":
            if not self.detached:
                return None
            sub = self.detached.pop(k % len(self.detached))
            used = set(id(n.taxon) for n in nodes if n.taxon is not None)
            subtaxa = [x.taxon for x in leaves_below(sub) if x.taxon is not None]
            # a taxon of the subtree (leaf or internal) that was handed to a fresh node meanwhile would appear twice
            if any(id(x.taxon) in used for x in rawtree.raw_nodes(_Sub(sub)) if x.taxon is not None):
                return None
            A = set(id(t) for t in subtaxa)
            # taxa on internal nodes of the re-attached subtree may surface as leaves later
            p = pick(nodes)
            if not p._child_nodes and p.taxon is not None:
                R.add(id(p.taxon))
            return (lambda: p.add_child(sub), True, R, A, False, True)
        # ---- fault dimension: inadmissible arguments -------------------------------------------
        if op == "prune_subtree_seed":
            return (lambda: tree.prune_subtree(seed), False, R, A, False, True)
        if op == "edge_collapse_leaf":
            e = pick(leaves)._edge
            return (lambda: e.collapse(), False, R, A, False, True)
        if op == "reseed_foreign":
            nd = [x for x in rawtree.raw_nodes(self.other) if x._child_nodes][-1]
            return (lambda: tree.reseed_at(nd), False, R, A, False, True)
        if op == "prune_subtree_foreign":
            nd = rawtree.raw_nodes(self.other)[-1]
            return (lambda: tree.prune_subtree(nd), False, R, A, False, True)
        if op == "filter_all":
            R = set(id(nd.taxon) for nd in nodes if nd.taxon is not None)
            return (lambda: tree.filter_leaf_nodes(lambda x: False), False, R, A, False, True)
        if op == "remove_child_nonchild":
            nd = dendropy.Node()
            return (lambda: pick(nodes).remove_child(nd), False, R, A, False, True)
        if op == "add_child_attached":
            cands = [nd for nd in nodes if nd._parent_node is not None]
            if len(cands) < 2:
                return None
            nd = pick(cands)
            tgt = [x for x in nodes if x is not nd and x is not nd._parent_node]
            # not below nd (that would be a documented assertion) - any other node
            desc = set(id(x) for x in rawtree.raw_nodes(_Sub(nd)))
            tgt = [x for x in tgt if id(x) not in desc]
            if not tgt:
                return None
            p = pick(tgt, k2)
            return (lambda: p.add_child(nd), False, R, A, False, True)
        if op in ("reseed_at_leaf", "reroot_at_leaf", "reroot_at_leaf_edge"):
            # the docstrings ask for an internal node / internal edge
            cands = [nd for nd in leaves if nd._parent_node is not None]
            if not cands:
                return None
            nd = pick(cands)
            if op == "reseed_at_leaf":
                return (lambda: tree.reseed_at(nd, update_bipartitions=False, suppress_unifurcations=su, collapse_unrooted_basal_bifurcation=cb),
                        False, R, A, False, True)
            if op == "reroot_at_leaf":
                return (lambda: tree.reroot_at_node(nd, update_bipartitions=False, suppress_unifurcations=su), False, R, A, False, True)
            return (lambda: tree.reroot_at_edge(nd._edge, update_bipartitions=False, suppress_unifurcations=su), False, R, A, False, True)
        if op == "prune_all_taxa":
            R = set(id(nd.taxon) for nd in nodes if nd.taxon is not None)
            return (lambda: tree.prune_taxa([nd.taxon for nd in taxleaves]), False, R, A, False, True)
        raise ValueError(op)

    # ------------------------------------------------------------------
    def _check(self, rec, st, op, R, A, before, clock, scale, i, check_fresh=False):
        tree = self.tree
        g = clock.guard(BUDGET * scale)
        res = {}
        with g:
            try:
                nodes = rawtree.check_arborescence(tree)
                rawtree.check_iterators(tree, nodes)
                res["nodes"] = nodes
            except stepclock.StepBudgetExceeded:
                raise
            except rawtree.Malformed as m:
                res["malformed"] = str(m)
            except Exception as e:
                res["malformed"] = "traversal raised %s: %s" % (type(e).__name__, e)
        rec.ticks += g.used
        if g.expired:
            raise Hang(i, list(g.stack or []))
        admissible = before[3] if before else True
        if "malformed" in res:
            cls = "MALFORMED" if admissible else "BROKEN_AFTER_INADMISSIBLE"
            rec.violation(cls, {"op": op, "rule": res["malformed"].split(" (")[0][:60], "raised": bool(before and before[4])},
                          "after %s: %s" % (op, res["malformed"]))
            raise StopRun()
        nodes = res["nodes"]
        if before is not None and admissible and not before[4]:
            L, I, alltaxa_before, _, _ = before
            Lp = [nd.taxon for nd in nodes if not nd._child_nodes and nd.taxon is not None]
            if op == "shuffle_taxa":
                if sorted(id(nd.taxon) for nd in nodes if nd.taxon is not None) != alltaxa_before:
                    rec.violation("LEAF_TAXA", {"op": op, "what": "not_a_permutation"}, "shuffle_taxa changed the multiset of taxa on the tree")
                    raise StopRun()
            else:
                cnt = {}
                for t in Lp:
                    cnt[id(t)] = cnt.get(id(t), 0) + 1
                lab = dict((id(t), t.label) for t in L + Lp)
                for t in L:
                    if id(t) in R:
                        continue
                    if cnt.get(id(t), 0) <= 0:
                        rec.violation("LEAF_TAXA", {"op": op, "what": "lost"},
                                      "%s lost leaf taxon %r which it was not asked to remove (asked: %s)" % (
                                          op, t.label, sorted(lab.get(x, "?") for x in R)))
                        raise StopRun()
                    cnt[id(t)] -= 1
                for tid, c in cnt.items():
                    if c <= 0:
                        continue
                    if tid in R and tid not in I:
                        rec.violation("LEAF_TAXA", {"op": op, "what": "not_removed"},
                                      "%s left taxon %r on a leaf although it was asked to remove it" % (op, lab.get(tid)))
                        raise StopRun()
                    if tid not in A and tid not in I and tid not in R:
                        rec.violation("LEAF_TAXA", {"op": op, "what": "gained"},
                                      "%s produced an extra leaf carrying taxon %r" % (op, lab.get(tid)))
                        raise StopRun()
        if check_fresh:
            d = self._freshness(nodes)
            if d:
                rec.violation("STALE_BIPARTITIONS", {"op": op, "what": d[0]},
                              "after %s (update_bipartitions requested on a current encoding; flags su=%s cb=%s): %s" % (op, st["su"], st["cb"], d[1]))
                raise StopRun()
            rec.probe("freshness_checked")

    def _freshness(self, nodes):
        tree = self.tree
        clone = dendropy.Tree(taxon_namespace=self.ns)
        clone.is_rooted = tree.is_rooted
        mp = {id(nodes[0]): clone.seed_node}
        clone.seed_node.taxon = nodes[0].taxon
        for nd in nodes[1:]:
            c = mp[id(nd._parent_node)].new_child()
            c.taxon = nd.taxon
            c.edge.length = nd._edge.length
            mp[id(nd)] = c
        clone.encode_bipartitions(suppress_unifurcations=False, collapse_unrooted_basal_bifurcation=False)
        cn = rawtree.raw_nodes(clone)
        if len(cn) != len(nodes):
            return ("clone", "harness clone differs in size")
        for a, b in zip(nodes, cn):
            ba = getattr(a._edge, "_bipartition", None)
            bb = b._edge._bipartition
            if ba is None:
                return ("missing", "an edge has no bipartition")
            if ba._leafset_bitmask != bb._leafset_bitmask:
                return ("leafset_bitmask", "edge leafset bitmask %s, a fresh encoding gives %s" % (bin(ba._leafset_bitmask), bin(bb._leafset_bitmask)))
            if ba._split_bitmask != bb._split_bitmask:
                return ("split_bitmask", "edge split bitmask %s, a fresh encoding gives %s" % (bin(ba._split_bitmask), bin(bb._split_bitmask)))
        if tree.bipartition_encoding is None:
            return ("encoding_list", "tree.bipartition_encoding is None")
        ea = sorted(b._split_bitmask for b in tree.bipartition_encoding)
        eb = sorted(b._split_bitmask for b in clone.bipartition_encoding)
        if ea != eb:
            return ("encoding_list", "tree.bipartition_encoding holds splits %s, a fresh encoding %s" % (ea, eb))
        # the look-up tables derived from the encoding (built on demand and cached): every value is an edge of the tree, and an
        # edge whose split no other edge shares is found under its split.  Reading them here also fills the caches, so that a
        # later operation that forgets to reset them is seen.
        try:
            sbm = tree.split_bitmask_edge_map
        except Exception as e:
            return ("edge_map", "split_bitmask_edge_map cannot be built: %s" % type(e).__name__)
        mine = set(id(nd._edge) for nd in nodes)
        for e in sbm.values():
            if id(e) not in mine:
                return ("edge_map", "split_bitmask_edge_map holds an edge that is not part of the tree")
        count = {}
        for nd in nodes:
            k = nd._edge._bipartition._split_bitmask
            count[k] = count.get(k, 0) + 1
        for nd in nodes:
            k = nd._edge._bipartition._split_bitmask
            if count[k] == 1 and sbm.get(k) is not nd._edge:
                return ("edge_map", "split_bitmask_edge_map does not lead from split %s to the edge that carries it" % bin(k))
        return None


class _Sub(object):
    """Adapter so that rawtree.raw_nodes can walk a subtree."""
    def __init__(self, nd):
        self._seed_node = nd


def _struct_key(tree):
    try:
        return rawtree.newick(tree, lengths=False)
    except Exception:
        return "?"


def make(name):
    return C03(name)
