"""C13 — all ways of reading the same source deliver the same data.

Simulated: the source route (string, SimFile stream with scheduler-chosen
short reads, SimFS path), the *session*: a history of read calls that share one
taxon namespace, with the one-tree-at-a-time file iterators advanced as
cooperative tasks between the other calls.

Reference for a document: TreeList.get(data=...) (per collection, where a
route selects one) into a fresh namespace, run alone.
"""
import dendropy
from dendropy.datamodel import basemodel
from dendropy.dataio import ioservice

from ..engine import Machine, StopRun
from ..model import docs, gen, rawtree
from ..seams.simfs import SimFS, SimFile, patched_open
from ..seams.simaddr import SimAddresses

TREE_ROUTES = ["treelist_get", "treelist_get_stream", "treelist_get_path", "tree_get", "treelist_read", "treelist_read_into_nonempty",
               "treelist_read_offset", "treelist_get_offset",
               "yield", "yield", "treearray_read", "dataset_get", "dataset_read", "treelist_get_collection",
               "yield_multi", "treearray_read_from_files"]
MATRIX_ROUTES = ["matrix_get", "matrix_get_stream", "matrix_get_path", "dataset_matrix"]


def _ann(obj):
    a = getattr(obj, "_annotations", None)
    if a is None:
        return []
    return sorted((x.name, repr(x.value)) for x in a)


def canon_tree(t, with_ids=False):
    def rec_(nd):
        ann = _ann(nd)
        eann = _ann(nd.edge)
        return [nd.taxon.label if nd.taxon is not None else None, nd._label, repr(nd._edge.length), list(nd.comments), ann, eann,
                [rec_(c) for c in nd._child_nodes]]
    tann = _ann(t)
    return {"label": t.label, "rooted": t.is_rooted, "weight": repr(t.weight), "comments": list(t.comments), "annotations": tann,
            "root": rec_(t._seed_node)}


def canon_matrix(m):
    return {"type": type(m).__name__, "rows": [(t.label, m[t].symbols_as_string()) for t in m],
            "subsets": sorted((k, sorted(v.character_indices)) for k, v in m.character_subsets.items())}


def make_tree_doc(rng, like=None):
    if like is None:
        fam = rng.choice(["newick", "nexus", "nexus", "nexml"])
        n = rng.randint(2, 6)
        style = rng.choice(["plain", "alpha", "under", "quoted", "spaced"])
        labs = gen.labels(rng, n, style)
    else:
        fam, labs, style = like["schema"], list(like["labels"]), like["style"]
        n = len(labs)
    meta = rng.random() < 0.4
    weights = rng.random() < 0.3
    quote = gen.raw_underscore_quote if (style == "under" and (like["raw"] if like is not None else rng.random() < 0.6)) else gen.nexus_quote
    raw = quote is gen.raw_underscore_quote
    block_comments = rng.random() < 0.4
    hyphens = rng.random() < 0.3

    def tree_text():
        spec = gen.tree_spec(rng, labs, rng.choice(gen.SHAPES), rng.choice(["none", "int", "float", "mixed_none"]),
                             internal_labels=rng.random() < 0.3)
        s = gen.spec_to_newick(spec, rooting=rng.choice([None, None, True, False]), quote=quote)
        if hyphens and ":" in s:
            j = s.rfind(":")
            k2 = j + 1
            while k2 < len(s) and (s[k2].isdigit() or s[k2] in ".e"):
                k2 += 1
            s = s[:j + 1] + rng.choice(["1.5e-05", "-0.25", "2E-3"]) + s[k2:]
        if weights:
            s = rng.choice(["[&W 1/2] ", "[&W 0.25] ", "[&W 2] ", "", "[&W 0] ", "[&W 0/3] "]) + s
        if meta and "'" not in s:
            j = s.find(")")
            if j > 0:
                s = s[:j + 1] + rng.choice(["[&support=0.9]", "[a plain comment]", "[&x=1,y={2,3}]"]) + s[j + 1:]
        return s
    if fam == "newick":
        ntrees = rng.randint(1, 4)
        text = "\n".join(tree_text() for _ in range(ntrees)) + "\n"
        return {"schema": "newick", "text": text, "collections": [ntrees], "labels": labs, "style": style, "raw": raw}
    if fam == "nexus":
        nblocks = rng.choice([1, 1, 2])
        taxa_order = list(labs)
        if like is not None and rng.random() < 0.5:
            rng.shuffle(taxa_order)         # the other document lists the same taxa in another order
        # what Mesquite writes: titled TAXA blocks that the other blocks LINK to; the second TAXA block (other taxa, another
        # NTAX) is the last one read before the TREES blocks
        titled = rng.random() < 0.25
        link = "  LINK TAXA = first;\n" if titled else ""
        text = "#NEXUS\n%sBEGIN TAXA;\n%s  DIMENSIONS NTAX=%d;\n  TAXLABELS %s;\nEND;\n" % (
            "[file comment]\n" if block_comments else "", "  TITLE first;\n" if titled else "", n, " ".join(quote(l) for l in taxa_order))
        if titled:
            text += "BEGIN TAXA;\n  TITLE second;\n  DIMENSIONS NTAX=2;\n  TAXLABELS zz_other_1 zz_other_2;\nEND;\n"
        if like is None and rng.random() < 0.35:
            nchar = rng.randint(2, 6)
            text += "BEGIN CHARACTERS;\n%s  DIMENSIONS NCHAR=%d;\n  FORMAT DATATYPE=DNA MISSING=? GAP=-;\n  MATRIX\n" % (
                ("  TITLE chars1;\n" + link) if titled else "", nchar)
            for l in labs:
                text += "    %s  %s\n" % (quote(l), "".join(rng.choice("ACGT") for _ in range(nchar)))
            text += "  ;\nEND;\nBEGIN SETS;\n"
            pool_ = ["CHARSET first = 1-%d;" % rng.randint(1, nchar), "CHARSET every = ALL;", "CHARSET odd = 1-.\\2;", "CHARSET last = %d;" % nchar]
            rng.shuffle(pool_)
            for st_ in pool_[:rng.randint(1, 3)]:
                text += "  " + st_ + "\n"
            text += "END;\n"
        if rng.random() < 0.3:
            text += rng.choice(["BEGIN PAUP;\n  set autoclose=yes;\n  log start;\nEND;\n", "BEGIN NOTES;\n  TEXT TAXON=1 TEXT='a note';\nEND;\n",
                                "BEGIN ASSUMPTIONS;\n  OPTIONS DEFTYPE=unord;\nEND;\n"])
        multiline = rng.random() < 0.3
        cols = []
        for b in range(nblocks):
            text += "BEGIN TREES;\n"
            if titled:
                text += "  TITLE trees%d;\n%s" % (b, link)
            if block_comments and rng.random() < 0.7:
                text += rng.choice(["  [block comment]\n", "  [&blockmeta=1]\n", "  [one] [two]\n"])
            translate = rng.random() < (0.4 if like is None else 0.8)
            order = list(range(len(labs)))
            if translate:
                if like is not None or rng.random() < 0.5:
                    rng.shuffle(order)          # TRANSLATE numbering that differs from the TAXA block order / from the other document
                num = dict((l, order.index(i) + 1) for i, l in enumerate(labs))
                text += "  TRANSLATE\n" + ",\n".join("    %d %s" % (num[l], quote(l)) for l in sorted(labs, key=lambda x: num[x])) + "\n  ;\n"
                if block_comments and rng.random() < 0.5:
                    text += "  [after translate]\n"
            k = rng.randint(1, 3)
            bare_numbers = (not translate) and rng.random() < 0.3
            if bare_numbers:
                # no TRANSLATE table: a number names the taxon at that position of this file's TAXA block
                translate = True
                num = dict((l, taxa_order.index(l) + 1) for l in labs)
            for i in range(k):
                s = tree_text()
                if translate:
                    for i2, l in sorted(enumerate(labs), key=lambda x: -len(x[1])):
                        s = s.replace(quote(l), "\x00%d\x00" % num[l])
                    s = s.replace("\x00", "")
                if multiline and "'" not in s and "[" not in s:
                    s = s.replace(",", ",\n      ")       # a statement may span lines
                text += "  TREE %s = %s\n" % (rng.choice(["t%d" % i, "'tree %d'" % i]), s)
                if rng.random() < 0.12:
                    # a statement of the old UTREE kind right after a tree: whatever the library makes of it (it skips it), every
                    # route has to make the same of it
                    text += "  UTREE u%d = %s\n" % (i, s)
                if block_comments and rng.random() < 0.3:
                    text += "  [between trees]\n"
            text += "END;\n"
            cols.append(k)
        return {"schema": "nexus", "text": text, "collections": cols, "labels": labs, "style": style, "raw": raw}
    # nexml: written by the library (no template writer of our own)
    order = list(labs)
    if like is not None:
        rng.shuffle(order)      # the second document binds the same otu ids (the writer numbers them) to other labels
    ns = dendropy.TaxonNamespace(order)
    tl = dendropy.TreeList(taxon_namespace=ns)
    k = rng.randint(1, 3)
    for _ in range(k):
        spec = gen.tree_spec(rng, labs, rng.choice(["binary", "poly", "caterpillar"]), rng.choice(["int", "float"]))
        tl.append(gen.build_tree(dendropy, spec, ns, is_rooted=rng.choice([True, False])))
    return {"schema": "nexml", "text": tl.as_string(schema="nexml"), "collections": [k], "labels": labs, "style": style, "raw": raw}


def make_matrix_doc(rng):
    d = None
    while d is None or d["content"] not in ("chars", "both"):
        d = docs.nexus_doc(rng, rng.randint(2, 5))
        if d is None:
            continue
    return d


class C13(Machine):
    name = "c13"
    property_id = "C13"
    runs = {"quick": 60000, "thorough": 1500000}
    batch = 300
    rule = ("sessions of 2-8 read calls over one or two seeded documents (Newick, NEXUS with TRANSLATE / several TREES blocks / "
            "comments / weights, NeXML) into one shared namespace, each call through a seeded route, tree iterators advanced one tree "
            "at a time between the other calls; distinct = (schema, ordered route list, interleaving pattern of iterator steps)")
    components = {"real": ["Tree.get", "TreeList.get/read", "Tree.yield_from_files", "TreeArray.read", "DataSet.get/read", "CharacterMatrix.get",
                           "Newick / NEXUS / NeXML readers and tree yielders", "NexusTaxonSymbolMapper"],
                  "simulated": ["source route: string / stream (short reads) / path (SimFS)", "the session history and the interleaving of lazily "
                                "advanced iterators", "object addresses (SimAddr)"]}
    assumptions = ["reference result of a document = TreeList.get(data=text) (or get(collection_offset=i)) into a fresh namespace, run alone",
                   "documented exclusion: a live iterator's namespace must not gain taxa through another call, so every session pre-populates "
                   "the shared namespace by a complete read before the first iterator is started"]

    def __init__(self, name="c13"):
        self.name = name

    def gen(self, rng, tier):
        kind = "trees" if rng.random() < 0.8 else "matrix"
        if kind == "trees":
            d = make_tree_doc(rng)
            opts = {}
            if d["schema"] != "nexml":
                if rng.random() < 0.4:
                    opts["rooting"] = rng.choice(["force-rooted", "force-unrooted", "default-rooted", "default-unrooted"])
                if rng.random() < 0.3:
                    opts["preserve_underscores"] = True
                if rng.random() < 0.4:
                    opts["store_tree_weights"] = True
                if rng.random() < 0.5:
                    opts["extract_comment_metadata"] = rng.random() < 0.5
                if rng.random() < 0.2:
                    opts["suppress_internal_node_taxa"] = False
                if d["schema"] == "nexus" and rng.random() < 0.2:
                    opts["store_ignored_blocks"] = True
            docs_ = [d]
            if rng.random() < 0.4:
                docs_.append(make_tree_doc(rng, like=d))      # same labels, other trees, other TRANSLATE numbering
            steps = [{"op": "call", "route": "treelist_get", "short": 0, "doc": 0}]
            for _ in range(rng.randint(1, 16 if tier == "thorough" else 7)):
                r = rng.random()
                if r < 0.3:
                    steps.append({"op": "advance", "k": rng.randrange(100), "n": rng.randint(1, 3)})
                elif r < 0.36:
                    steps.append({"op": "close", "k": rng.randrange(100)})
                else:
                    steps.append({"op": "call", "route": rng.choice(TREE_ROUTES), "short": rng.choice([0, 0, 1, 3, 64]),
                                  "ci": rng.randrange(10), "ti": rng.randrange(10), "seed": rng.getrandbits(30),
                                  "doc": rng.randrange(len(docs_)), "off": rng.randint(-4, 4)})
            return {"config": {"kind": kind, "schema": d["schema"], "opts": opts, "collections": [x["collections"] for x in docs_],
                               "labels": d["labels"], "addr_seed": rng.getrandbits(32), "foreign_taxa": rng.choice([0, 0, 0, 1, 3])},
                    "initial": {"texts": [x["text"] for x in docs_]}, "steps": steps}
        d = make_matrix_doc(rng)
        steps = [{"op": "call", "route": rng.choice(MATRIX_ROUTES), "short": rng.choice([0, 1, 3]), "seed": rng.getrandbits(30)}
                 for _ in range(rng.randint(2, 5))]
        return {"config": {"kind": kind, "schema": "nexus", "opts": {}, "data_type": d["data_type"], "addr_seed": rng.getrandbits(32)},
                "initial": {"text": d["text"]}, "steps": steps}

    # ------------------------------------------------------------------
    def run(self, plan, rec):
        with SimAddresses(plan["config"]["addr_seed"]):
            if plan["config"]["kind"] == "trees":
                self._run_trees(plan, rec)
            else:
                self._run_matrix(plan, rec)

    def _stream(self, text, st, rec):
        import random
        short = st.get("short", 0)
        fn = None
        if short:
            r = random.Random(st.get("seed", 1))

            def fn(n):
                return max(1, min(n, r.randint(1, short)))
            rec.fault("short_reads")
        return SimFile(None, "/sim/doc", text, "r", fn, {})

    def _run_trees(self, plan, rec):
        cfg = plan["config"]
        texts = plan["initial"]["texts"]
        schema = cfg["schema"]
        opts = dict(cfg["opts"])
        all_cols = cfg["collections"]
        refs = []
        for text, cols in zip(texts, all_cols):
            # reference, run alone
            try:
                r_all = dendropy.TreeList.get(data=text, schema=schema, **opts)
                r_cols = [dendropy.TreeList.get(data=text, schema=schema, collection_offset=i, **opts) for i in range(len(cols))]
            except Exception as e:
                # does every route refuse the text (C20's subject), or only this one?
                try:
                    n_it = len(list(dendropy.Tree.yield_from_files(files=[SimFile(None, "/sim/doc", text)], schema=schema, **opts)))
                except Exception:
                    rec.probe("reference_read_failed")      # C20/C02 territory: nothing to compare routes against
                    rec.ev("reference_failed", type(e).__name__)
                    return
                import traceback
                fn = [f.name for f in traceback.extract_tb(e.__traceback__) if "dendropy" in f.filename]
                rec.violation("ROUTE_FAILED", {"schema": schema, "route": "treelist_get", "exception": type(e).__name__, "function": fn[-1] if fn else "harness"},
                              "TreeList.get raised %s: %s for a text (options %s) from which the file iterator delivers %d trees" % (type(e).__name__, e, opts, n_it))
                return
            ref_all = [canon_tree(t) for t in r_all]
            ref_cols = [[canon_tree(t) for t in c] for c in r_cols]
            if "UTREE" in text:
                cols = [len(c) for c in ref_cols]       # (how a UTREE statement counts is the library's business, as long as all routes agree)
            if [len(c) for c in ref_cols] != list(cols) or sum(cols) != len(ref_all):
                rec.violation("REFERENCE_INCONSISTENT", {"schema": schema},
                              "TreeList.get delivers %d trees, per collection %s, document holds %s" % (len(ref_all), [len(c) for c in ref_cols], cols))
                return
            refs.append((text, cols, ref_all, ref_cols))
        self._refs = refs
        ns = dendropy.TaxonNamespace()
        for k_ in range(cfg.get("foreign_taxa", 0)):
            ns.new_taxon(label="zz pre %d" % k_)       # the shared namespace serves other data as well
        iters = []          # [iterator, delivered canon list, done]
        routes = []
        pattern = []
        accum = dendropy.TreeList(taxon_namespace=ns)
        # documented exclusion: a live iterator's namespace must not gain taxa through another call, so the shared
        # namespace is pre-populated with every label of every document of the session by complete reads
        for text, cols, ref_all, ref_cols in refs[1:]:
            try:
                got = [canon_tree(t) for t in dendropy.TreeList.get(data=text, schema=schema, taxon_namespace=ns, **opts)]
                first = [canon_tree(t) for t in dendropy.TreeList.get(data=refs[0][0], schema=schema, taxon_namespace=ns, **opts)]
            except Exception as e:
                import traceback
                fn = [f.name for f in traceback.extract_tb(e.__traceback__) if "dendropy" in f.filename]
                rec.violation("ROUTE_FAILED", {"schema": schema, "route": "treelist_get_shared_namespace", "exception": type(e).__name__,
                                               "function": fn[-1] if fn else "harness"},
                              "TreeList.get into the shared namespace raised %s: %s although the same text reads alone" % (type(e).__name__, e))
                raise StopRun()
            if got != ref_all or first != refs[0][2]:
                d = _first_diff(got, ref_all) if got != ref_all else _first_diff(first, refs[0][2])
                rec.violation("ROUTE_DIFFERS", {"schema": schema, "route": "treelist_get_shared_namespace", "what": d[0]},
                              "TreeList.get into the shared namespace delivers other data than alone: %s" % d[1])
                raise StopRun()
        for i, st in enumerate(plan["steps"]):
            rec.step_index = i
            rec.steps += 1
            if st["op"] == "advance":
                live = [x for x in iters if not x[2]]
                if not live:
                    continue
                it = live[st["k"] % len(live)]
                for _ in range(st["n"]):
                    self._advance(rec, it, it[3], schema, ns)
                pattern.append("a")
                continue
            if st["op"] == "close":
                live = [x for x in iters if not x[2]]
                if not live:
                    continue
                it = live[st["k"] % len(live)]
                it[2] = True
                it[0] = None       # drop the only reference: the yielder and its symbol mapper are finalised now
                rec.probe("iterator_abandoned_midway")
                pattern.append("c")
                continue
            route = st["route"]
            routes.append(route)
            pattern.append("r" if st.get("doc", 0) % len(refs) == 0 else "R")
            text, cols, ref_all, ref_cols = refs[st.get("doc", 0) % len(refs)]
            try:
                got, want = self._call_tree_route(rec, route, st, text, schema, opts, ns, cols, ref_all, ref_cols, iters, accum)
            except StopRun:
                raise
            except Exception as e:
                import traceback
                fn = [f.name for f in traceback.extract_tb(e.__traceback__) if "dendropy" in f.filename]
                rec.violation("ROUTE_FAILED", {"schema": schema, "route": route, "exception": type(e).__name__, "function": fn[-1] if fn else "harness"},
                              "route %s raised %s: %s although TreeList.get reads the same text (session so far: %s)" % (route, type(e).__name__, e, routes))
                raise StopRun()
            rec.ev("call", route, len(got) if got is not None else None)
            if got is not None and got != want:
                d = _first_diff(got, want)
                rec.violation("ROUTE_DIFFERS", {"schema": schema, "route": route, "what": d[0]},
                              "route %s delivers other data than TreeList.get for the same text and options %s: %s" % (route, opts, d[1]))
                raise StopRun()
            self._taxa_check(rec, ns, route)
        # drain every live iterator
        for it in iters:
            while not it[2]:
                self._advance(rec, it, it[3], schema, ns)
        self._taxa_check(rec, ns, "final")
        # the namespace is still usable: a document with a new label reads as it does alone
        del iters[:]
        extra = "(%s,zz_new_label);" % gen.nexus_quote(cfg["labels"][0])
        try:
            tl = dendropy.TreeList.get(data=extra, schema="newick", taxon_namespace=ns)
            ok = len(tl) == 1 and sorted(nd.taxon.label for nd in tl[0].leaf_node_iter()) == sorted(
                nd.taxon.label for nd in dendropy.TreeList.get(data=extra, schema="newick")[0].leaf_node_iter())
        except Exception as e:
            rec.violation("NAMESPACE_LEFT_UNUSABLE", {"schema": schema, "exception": type(e).__name__},
                          "after the session (%s) a document with a new label cannot be read into the shared namespace: %s: %s" % (
                              pattern, type(e).__name__, e))
            return
        if not ok:
            rec.violation("NAMESPACE_LEFT_UNUSABLE", {"schema": schema, "exception": None}, "read after the session delivers other data")
            return
        rec.nontrivial((schema, routes, "".join(pattern)))

    def _advance(self, rec, it, ref_all, schema, ns):
        try:
            t = next(it[0])
        except StopIteration:
            it[2] = True
            if it[1] != ref_all:
                d = _first_diff(it[1], ref_all)
                rec.violation("ROUTE_DIFFERS", {"schema": schema, "route": "yield", "what": d[0]},
                              "the file iterator delivered other data than TreeList.get: %s" % d[1])
                raise StopRun()
            return
        it[1].append(canon_tree(t))
        for nd in rawtree.raw_nodes(t):
            if nd.taxon is not None and nd.taxon not in ns:
                rec.violation("TAXON_OUTSIDE_NAMESPACE", {"schema": schema, "route": "yield"}, "iterator tree references a taxon outside the shared namespace")
                raise StopRun()
        if len(it[1]) > len(ref_all):
            rec.violation("ROUTE_DIFFERS", {"schema": schema, "route": "yield", "what": "count"}, "the file iterator delivers more trees than TreeList.get")
            raise StopRun()

    def _call_tree_route(self, rec, route, st, text, schema, opts, ns, cols, ref_all, ref_cols, iters, accum):
        kw = dict(opts)
        if route == "treelist_get":
            return [canon_tree(t) for t in dendropy.TreeList.get(data=text, schema=schema, taxon_namespace=ns, **kw)], ref_all
        if route == "treelist_get_stream":
            return [canon_tree(t) for t in dendropy.TreeList.get(file=self._stream(text, st, rec), schema=schema, taxon_namespace=ns, **kw)], ref_all
        if route == "treelist_get_path":
            fs = SimFS()
            fs.put("/sim/doc", text)
            with patched_open(fs, [basemodel]):
                return [canon_tree(t) for t in dendropy.TreeList.get(path="/sim/doc", schema=schema, taxon_namespace=ns, **kw)], ref_all
        if route == "treelist_get_collection":
            ci = st["ci"] % len(cols)
            return [canon_tree(t) for t in dendropy.TreeList.get(data=text, schema=schema, taxon_namespace=ns, collection_offset=ci, **kw)], ref_cols[ci]
        if route == "tree_get":
            ci = st["ci"] % len(cols)
            ti = st["ti"] % cols[ci]
            t = dendropy.Tree.get(data=text, schema=schema, taxon_namespace=ns, collection_offset=ci, tree_offset=ti, **kw)
            return [canon_tree(t)], [ref_cols[ci][ti]]
        if route == "treelist_read":
            tl = dendropy.TreeList(taxon_namespace=ns)
            n = tl.read(data=text, schema=schema, **kw)
            if n != len(ref_all):
                rec.violation("ROUTE_DIFFERS", {"schema": schema, "route": route, "what": "reported_count"},
                              "read() reports %s trees, %d were expected" % (n, len(ref_all)))
                raise StopRun()
            return [canon_tree(t) for t in tl], ref_all
        if route == "treelist_read_into_nonempty":
            n0 = len(accum)
            accum.read(file=self._stream(text, st, rec), schema=schema, **kw)
            return [canon_tree(t) for t in list(accum)[n0:]], ref_all
        if route in ("treelist_read_offset", "treelist_get_offset"):
            ci = st["ci"] % len(cols)
            off = st.get("off", 0)
            if not (-cols[ci] <= off < cols[ci]):
                off = off % cols[ci]
            want = ref_cols[ci][off:]
            if route == "treelist_get_offset":
                got = dendropy.TreeList.get(data=text, schema=schema, taxon_namespace=ns, collection_offset=ci, tree_offset=off, **kw)
                return [canon_tree(t) for t in got], want
            n0 = len(accum)
            n = accum.read(data=text, schema=schema, collection_offset=ci, tree_offset=off, **kw)
            got = [canon_tree(t) for t in list(accum)[n0:]]
            if n != len(got):
                rec.violation("ROUTE_DIFFERS", {"schema": schema, "route": route, "what": "reported_count"},
                              "read(tree_offset=%d) into a list of %d trees reports %s trees but added %d" % (off, n0, n, len(got)))
                raise StopRun()
            return got, want
        if route == "yield":
            it = dendropy.Tree.yield_from_files(files=[self._stream(text, st, rec)], schema=schema, taxon_namespace=ns, **kw)
            iters.append([iter(it), [], False, ref_all])
            rec.probe("iterator_started")
            return None, None
        if route in ("yield_multi", "treearray_read_from_files"):
            # several sources in one call: this document, then the session's other document (or this one again)
            other = self._refs[(st.get("doc", 0) + 1) % len(self._refs)]
            srcs = [(text, ref_all), (other[0], other[2])]
            if st["ti"] % 3 == 0:
                srcs.append((text, ref_all))
            if route == "yield_multi":
                it = dendropy.Tree.yield_from_files(files=[self._stream(t_, st, rec) for t_, _ in srcs], schema=schema, taxon_namespace=ns, **kw)
                iters.append([iter(it), [], False, [c for _, r_ in srcs for c in r_]])
                rec.probe("iterator_over_several_files")
                return None, None
            flat = [c for _, r_ in srcs for c in r_]
            if len(set(c["rooted"] for c in flat)) != 1 or len(set(len(_leaves(c["root"])) for c in flat)) != 1:
                return None, None      # mixed rooting is refused by TreeArray by documentation
            off = abs(st.get("off", 0)) % (min(len(r_) for _, r_ in srcs) + 1)      # burn-in: skipped in EVERY source
            ta = dendropy.TreeArray(taxon_namespace=ns)
            ta.read_from_files(files=[self._stream(t_, st, rec) for t_, _ in srcs], schema=schema, tree_offset=off, **kw)
            ta2 = dendropy.TreeArray(taxon_namespace=ns)
            for t_, _ in srcs:
                for tr in dendropy.TreeList.get(data=t_, schema=schema, taxon_namespace=ns, **kw)[off:]:
                    ta2.add_tree(tr)
            rec.probe("treearray_from_several_files" + ("_with_burnin" if off else ""))
            a = [(tuple(ta._tree_split_bitmasks[i]), tuple(ta._tree_edge_lengths[i]), ta._tree_weights[i]) for i in range(len(ta))]
            b = [(tuple(ta2._tree_split_bitmasks[i]), tuple(ta2._tree_edge_lengths[i]), ta2._tree_weights[i]) for i in range(len(ta2))]
            return [repr(x) for x in a], [repr(x) for x in b]
        if route == "treearray_read":
            rooted_vals = set(c["rooted"] for c in ref_all)
            if len(rooted_vals) != 1 or len(set(len(_leaves(c["root"])) for c in ref_all)) != 1:
                return None, None      # mixed rooting is refused by TreeArray by documentation
            ta = dendropy.TreeArray(taxon_namespace=ns)
            ta.read(data=text, schema=schema, **kw)
            ta2 = dendropy.TreeArray(taxon_namespace=ns)
            ref_trees = dendropy.TreeList.get(data=text, schema=schema, taxon_namespace=ns, **kw)
            for t in ref_trees:
                ta2.add_tree(t)
            # the weight the array must hold for tree i is the weight the tree list route delivers (1.0 when it delivers none)
            want_w = [float(t.weight) if t.weight is not None else 1.0 for t in ref_trees]
            if [float(w) for w in ta._tree_weights] != want_w:
                rec.violation("ROUTE_DIFFERS", {"schema": schema, "route": route, "what": "weights"},
                              "TreeArray.read holds tree weights %s, the tree list route delivers %s" % (list(ta._tree_weights), want_w))
                raise StopRun()
            a = [(tuple(ta._tree_split_bitmasks[i]), tuple(ta._tree_edge_lengths[i]), ta._tree_weights[i]) for i in range(len(ta))]
            b = [(tuple(ta2._tree_split_bitmasks[i]), tuple(ta2._tree_edge_lengths[i]), ta2._tree_weights[i]) for i in range(len(ta2))]
            return [repr(x) for x in a], [repr(x) for x in b]
        if route in ("dataset_get", "dataset_read"):
            if route == "dataset_get":
                ds = dendropy.DataSet.get(data=text, schema=schema, taxon_namespace=ns, **kw)
            else:
                ds = dendropy.DataSet()
                ds.attach_taxon_namespace(ns)
                ds.read(file=self._stream(text, st, rec), schema=schema, **kw)
            got = [[canon_tree(t) for t in tl] for tl in ds.tree_lists]
            if got != ref_cols:
                flat = [x for c in got for x in c]
                if flat == ref_all and [len(c) for c in got] != [len(c) for c in ref_cols]:
                    rec.violation("ROUTE_DIFFERS", {"schema": schema, "route": route, "what": "collections"},
                                  "data set groups the trees as %s, the document as %s" % ([len(c) for c in got], [len(c) for c in ref_cols]))
                    raise StopRun()
            return [x for c in got for x in c], ref_all
        raise ValueError(route)

    def _taxa_check(self, rec, ns, where):
        labs = [t.label for t in ns]
        if len(set(labs)) != len(labs):
            rec.violation("TAXON_DUPLICATED", {"where": where if where == "final" else "call"},
                          "after %s the shared namespace holds duplicate labels: %s" % (where, sorted(labs)))
            raise StopRun()

    # ------------------------------------------------------------------
    def _run_matrix(self, plan, rec):
        cfg = plan["config"]
        text = plan["initial"]["text"]
        dt = cfg["data_type"]
        cls = {"dna": dendropy.DnaCharacterMatrix, "protein": dendropy.ProteinCharacterMatrix, "standard": dendropy.StandardCharacterMatrix,
               "continuous": dendropy.ContinuousCharacterMatrix}[dt]
        try:
            ref_m = cls.get(data=text, schema="nexus")
        except Exception as e:
            rec.probe("reference_read_failed")
            return
        ref = canon_matrix(ref_m)
        routes = []
        for i, st in enumerate(plan["steps"]):
            rec.step_index = i
            rec.steps += 1
            route = st["route"]
            routes.append(route)
            try:
                if route == "matrix_get":
                    got = canon_matrix(cls.get(data=text, schema="nexus"))
                elif route == "matrix_get_stream":
                    got = canon_matrix(cls.get(file=self._stream(text, st, rec), schema="nexus"))
                elif route == "matrix_get_path":
                    fs = SimFS()
                    fs.put("/sim/doc", text)
                    with patched_open(fs, [basemodel]):
                        got = canon_matrix(cls.get(path="/sim/doc", schema="nexus"))
                else:
                    ds = dendropy.DataSet.get(data=text, schema="nexus")
                    if len(ds.char_matrices) != 1:
                        rec.violation("ROUTE_DIFFERS", {"schema": "nexus", "route": route, "what": "matrix_count"},
                                      "data set holds %d matrices for one CHARACTERS/DATA block" % len(ds.char_matrices))
                        raise StopRun()
                    got = canon_matrix(ds.char_matrices[0])
            except StopRun:
                raise
            except Exception as e:
                import traceback
                fn = [f.name for f in traceback.extract_tb(e.__traceback__) if "dendropy" in f.filename]
                rec.violation("ROUTE_FAILED", {"schema": "nexus", "route": route, "exception": type(e).__name__, "function": fn[-1] if fn else "harness"},
                              "route %s raised %s: %s although CharacterMatrix.get reads the same text" % (route, type(e).__name__, e))
                raise StopRun()
            rec.ev("call", route)
            if got != ref:
                rec.violation("ROUTE_DIFFERS", {"schema": "nexus", "route": route, "what": "matrix"},
                              "route %s delivers another matrix than CharacterMatrix.get: %s vs %s" % (route, str(got)[:200], str(ref)[:200]))
                raise StopRun()
        rec.nontrivial(("matrix", routes))


def _leaves(root):
    out = []
    stack = [root]
    while stack:
        x = stack.pop()
        if x[6]:
            stack.extend(x[6])
        else:
            out.append(x[0])
    return out


def _first_diff(got, want):
    if len(got) != len(want):
        return ("count", "%d trees vs %d" % (len(got), len(want)))
    for i, (a, b) in enumerate(zip(got, want)):
        if a != b:
            if isinstance(a, dict):
                for k in ("rooted", "weight", "comments", "annotations", "root"):
                    if a[k] != b[k]:
                        return (k, "tree %d: %s: %s vs %s" % (i, k, str(a[k])[:200], str(b[k])[:200]))
            return ("tree", "tree %d: %s vs %s" % (i, str(a)[:200], str(b)[:200]))
    return ("?", "?")


def make(name):
    return C13(name)
