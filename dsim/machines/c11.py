"""C11 — collections keep every member inside their own taxon namespace.

Simulated: the history of container operations on tree lists, a tree array,
character matrices and a data set, fed with trees and matrices created under
foreign namespaces (overlapping, disjoint and case-variant labels); the file
system for read(path=...).

Oracle after every step: the closure invariant over every live container and
every tree removed from one; for migrating / reading steps the label rule
(equal labels -> one taxon, different labels -> different taxa, nothing lost),
judged under the target namespace's case rule.
"""
import dendropy
from dendropy.datamodel import basemodel
from dendropy.utility import error as dperror

from ..engine import Machine, StopRun
from ..model import gen, rawtree
from ..seams.simfs import SimFS, patched_open
from ..seams.simaddr import SimAddresses
from ..seams import stepclock

LABELS = ["a", "b", "c", "d", "e", "A", "B", "x", "y", "Cc", "cc", "Gie\u00dfen", "gie\u00dfen"]   # the last two: lower() and casefold() disagree

OPS = ["append", "append", "append_locked", "insert", "extend_list", "extend_treelist", "iadd", "add", "setitem", "setslice_list", "setslice_treelist",
       "read_data", "read_path", "read_file", "read_torn", "ta_migrate", "new_tree", "new_tree_seed_node", "new_tree_from_tree", "pop", "remove", "delitem", "construct", "migrate", "reconstruct",
       "update_ns", "getslice", "ta_add_foreign", "ta_add", "ta_merge_foreign", "ta_merge_foreign", "new_tree_foreign_ns",
       "m_new_sequence", "m_setitem", "m_setitem_foreign", "m_migrate", "m_reconstruct", "m_from_dict",
       "ds_add_list", "ds_add_matrix", "ds_new_tree_list", "ds_new_char_matrix", "ds_read", "ds_attach", "ds_unify", "ds_detach"]


class C11(Machine):
    name = "c11"
    property_id = "C11"
    runs = {"quick": 60000, "thorough": 1000000}
    batch = 300
    rule = ("seeded histories (5-40 steps) of TreeList / TreeArray / CharacterMatrix / DataSet operations fed with trees and matrices "
            "built under foreign namespaces with overlapping, disjoint and case-variant label sets; distinct = operation-name sequences "
            "containing at least one step that imported foreign taxa")
    components = {"real": ["TreeList", "TreeArray.add_tree", "CharacterMatrix", "DataSet", "TaxonNamespaceAssociated.migrate_taxon_namespace / "
                           "reconstruct / update", "newick reader (read)"],
                  "simulated": ["operation history", "file system for read(path=)", "object addresses (SimAddr)"]}
    assumptions = ["'equal labels' is judged under the target namespace's case-sensitivity (the way the namespace itself matches labels); "
                   "reads pass case_sensitive_taxon_labels accordingly",
                   "the label rule is checked for the default unify_taxa_by_label=True and the 'migrate' import strategy; for 'add' and "
                   "unify_taxa_by_label=False only the closure invariant is demanded"]

    def __init__(self, name="c11"):
        self.name = name

    def gen(self, rng, tier):
        steps = []
        for _ in range(rng.randint(5, 90 if tier == "thorough" else 40)):
            labs = rng.sample(LABELS, rng.randint(2, 5))
            steps.append({"op": rng.choice(OPS), "l": rng.randrange(100), "l2": rng.randrange(100), "i": rng.randrange(100), "j": rng.randrange(100),
                          "labels": labs, "shape": rng.choice(["binary", "poly", "caterpillar"]), "strategy": rng.choice(["migrate", "migrate", "add"]),
                          "n": rng.randint(0, 3), "unify": rng.random() < 0.8, "ns": rng.randrange(100), "flag": rng.random() < 0.5,
                          "tseed": rng.getrandbits(30), "shared_foreign": rng.random() < 0.4})
        cfg = {"cs": [rng.random() < 0.3, rng.random() < 0.5, False], "attached": rng.random() < 0.5, "addr_seed": rng.getrandbits(32),
               "init_labels": [rng.sample(LABELS[:5], rng.randint(0, 4)) for _ in range(3)]}
        return {"config": cfg, "initial": {}, "steps": steps}

    # ------------------------------------------------------------------
    def run(self, plan, rec):
        with SimAddresses(plan["config"]["addr_seed"]):
            self._run(plan, rec)

    def _foreign_tree(self, st, k=0):
        import random
        r = random.Random(st["tseed"] + k)
        labs = list(st["labels"])
        if st.get("shared_foreign"):
            # one foreign namespace for the whole history: successive imports bring the same Taxon objects again
            ns = self.foreign
        else:
            ns = dendropy.TaxonNamespace(labs, is_case_sensitive=True)
        spec = gen.tree_spec(r, labs, st["shape"], "int")
        t = gen.build_tree(dendropy, spec, ns, is_rooted=True)
        return t

    def _run(self, plan, rec):
        cfg = plan["config"]
        self.nss = [dendropy.TaxonNamespace(cfg["init_labels"][i], is_case_sensitive=cfg["cs"][i], label="N%d" % i) for i in range(3)]
        self.lists = [dendropy.TreeList(taxon_namespace=self.nss[0]), dendropy.TreeList(taxon_namespace=self.nss[1])]
        self.ta = dendropy.TreeArray(taxon_namespace=self.nss[0], is_rooted_trees=True)
        self.mats = [dendropy.DnaCharacterMatrix(taxon_namespace=self.nss[0]), dendropy.StandardCharacterMatrix(taxon_namespace=self.nss[2])]
        self.ds = dendropy.DataSet()
        if cfg["attached"]:
            self.ds.attach_taxon_namespace(self.nss[0])
        self.removed = []
        self.ds_out_of_step = False
        self.foreign = dendropy.TaxonNamespace(LABELS, is_case_sensitive=True, label="F")
        clock = stepclock.get_clock()
        names = []
        imported = False
        self._invariant(rec, "init")
        for i, st in enumerate(plan["steps"]):
            rec.step_index = i
            rec.steps += 1
            op = st["op"]
            g = clock.guard(600000)
            r = None
            exc = None
            with g:
                try:
                    r = self._apply(rec, st, op)
                except stepclock.StepBudgetExceeded:
                    raise
                except StopRun:
                    raise
                except Exception as e_:
                    exc = e_
            rec.ticks += g.used
            if g.expired:
                rec.probe("step_budget_exceeded_history_abandoned")     # termination is not part of this property
                return
            try:
                if exc is not None:
                    raise exc
            except StopRun:
                raise
            except Exception as e:
                import traceback
                fn = [f.name for f in traceback.extract_tb(e.__traceback__) if "dendropy" in f.filename]
                rec.violation("OP_FAILED", {"op": op, "exception": type(e).__name__, "function": fn[-1] if fn else "harness"},
                              "%s raised %s: %s" % (op, type(e).__name__, e))
                raise StopRun()
            rec.ev("op", op, r)
            names.append(op)
            if r == "imported":
                imported = True
            self._invariant(rec, op)
        if imported:
            rec.nontrivial(names)

    # ------------------------------------------------------------------
    def _label_rule(self, rec, op, items, target_ns, members_before=None):
        """items: list of (holder, old_label[, old_taxon_id]) where holder has .taxon (node) - after the step.
        Items whose taxon was already a member of the target namespace before the step did not move: they
        must simply keep their taxon; the equal/different-label rule is for the items that were brought in."""
        cs = target_ns.is_case_sensitive
        groups = {}
        for it in items:
            holder, old = it[0], it[1]
            t = holder.taxon
            if members_before is not None and len(it) > 2 and it[2] in members_before:
                # it stays, or (label unification is documented to re-map members too) moves to a member with an equal label
                if t is None or (id(t) != it[2] and not ((t.label == old) if cs else (str(t.label).lower() == str(old).lower()))):
                    rec.violation("TAXON_CHANGED", {"op": op}, "%s: an item already on a member taxon (%r) was moved to a taxon with another label" % (op, old))
                    raise StopRun()
                continue
            if t is None:
                rec.violation("TAXON_LOST", {"op": op}, "%s: an item that carried taxon %r has no taxon afterwards" % (op, old))
                raise StopRun()
            same = (t.label == old) if cs else (str(t.label).lower() == str(old).lower())
            if not same:
                rec.violation("LABEL_CHANGED", {"op": op}, "%s: item with label %r now sits on taxon %r" % (op, old, t.label))
                raise StopRun()
            key = old if cs else old.lower()
            groups.setdefault(key, set()).add(id(t))
        for key, ids in groups.items():
            if len(ids) > 1:
                rec.violation("TAXON_DUPLICATED", {"op": op}, "%s: items with equal label %r ended up on %d different taxa" % (op, key, len(ids)))
                raise StopRun()
        seen = {}
        for key, ids in groups.items():
            tid = next(iter(ids))
            if tid in seen:
                rec.violation("TAXA_MERGED", {"op": op}, "%s: items with different labels %r and %r ended up on one taxon" % (op, key, seen[tid]))
                raise StopRun()
            seen[tid] = key

    @staticmethod
    def _items(trees):
        out = []
        for t in trees:
            for nd in rawtree.raw_nodes(t):
                if nd.taxon is not None:
                    out.append((nd, nd.taxon.label, id(nd.taxon)))
        return out

    def _apply(self, rec, st, op):
        L = self.lists[st["l"] % len(self.lists)]
        L2 = self.lists[st["l2"] % len(self.lists)]
        ns_t = self.nss[st["ns"] % 3]
        mb_L = set(id(t) for t in L.taxon_namespace)
        mb_T = set(id(t) for t in ns_t)
        if op in ("append", "insert", "setitem"):
            t = self._foreign_tree(st)
            items = self._items([t])
            kw = {}
            if st["strategy"] == "migrate" and st["j"] % 4 == 0 and op != "setitem":
                # a caller-supplied memo (documented keyword): one foreign taxon whose label the list's namespace does not know
                # yet is mapped to a Taxon of the caller's making, which has to become a member like any other
                known = set((x.label or "").lower() for x in L.taxon_namespace)
                cands = [nd.taxon for nd in rawtree.raw_nodes(t) if nd.taxon is not None and (nd.taxon.label or "").lower() not in known]
                if cands:
                    kw["taxon_mapping_memo"] = {cands[0]: dendropy.Taxon(label=cands[0].label)}
                    rec.probe("caller_supplied_memo")
            if op == "append":
                L.append(t, taxon_import_strategy=st["strategy"], **kw)
            elif op == "insert":
                L.insert(st["i"] % (len(L) + 1), t, taxon_import_strategy=st["strategy"], **kw)
            else:
                if len(L) == 0:
                    return "skip"
                idx = st["i"] % len(L)
                self.removed.append(L[idx])
                L[idx] = t
                st = dict(st, strategy="migrate")
            if st["strategy"] == "migrate":
                self._label_rule(rec, op, items, L.taxon_namespace, mb_L)
            return "imported"
        if op == "append_locked":
            # fault: the list's namespace is locked while a tree is brought in; once unlocked the same call must work
            t = self._foreign_tree(dict(st, shared_foreign=False))
            items = self._items([t])
            ns = L.taxon_namespace
            ns.is_mutable = False
            rec.fault("namespace_locked_during_import")
            refused = False
            try:
                L.append(t, taxon_import_strategy=st["strategy"])
            except dperror.ImmutableTaxonNamespaceError:
                refused = True
            finally:
                ns.is_mutable = True
            if refused:
                if any(x is t for x in L):
                    rec.violation("CLOSURE", {"op": op, "what": "refused_but_added"}, "append refused the tree but the list holds it")
                    raise StopRun()
                own = t.taxon_namespace
                for nd in rawtree.raw_nodes(t):
                    if nd.taxon is not None and (own is None or nd.taxon not in own):
                        rec.violation("CLOSURE", {"op": op, "what": "refused_tree_inconsistent"},
                                      "a tree refused by a locked namespace is left referencing taxon %r outside its own namespace" % nd.taxon.label)
                        raise StopRun()
                rec.probe("import_refused_then_retried")
                items = self._items([t])
                mb_L = set(id(x) for x in L.taxon_namespace)
                L.append(t, taxon_import_strategy=st["strategy"])
            if st["strategy"] == "migrate":
                self._label_rule(rec, op, items, L.taxon_namespace, mb_L)
            return "imported"
        if op in ("extend_list", "setslice_list"):
            ts = [self._foreign_tree(st, k) for k in range(st["n"])]
            items = self._items(ts)
            if op == "extend_list":
                L.extend(ts)
            else:
                a = st["i"] % (len(L) + 1)
                b = min(len(L), a + st["j"] % 3)
                self.removed.extend(L._trees[a:b])
                L[a:b] = ts
            self._label_rule(rec, op, items, L.taxon_namespace, mb_L)
            return "imported"
        if op in ("extend_treelist", "iadd", "add", "setslice_treelist", "construct"):
            if op == "construct":
                before = self._items(list(L2))
                labels_before = [(it[1], it[2]) for it in before]
                N = dendropy.TreeList(L2, taxon_namespace=ns_t)
                after = self._items(list(N))
                if len(after) != len(before):
                    rec.violation("TAXON_LOST", {"op": op}, "TreeList(other, taxon_namespace=...) copied %d of %d taxon references" % (len(after), len(before)))
                    raise StopRun()
                self._label_rule(rec, op, [(a_[0], lab, tid) for a_, (lab, tid) in zip(after, labels_before)], ns_t, mb_T)
                if len(self.lists) < 4:
                    self.lists.append(N)
                return "imported"
            if L is L2 and op != "add":
                return "skip"      # a list extended by itself is outside the statement (and does not terminate)
            n0 = len(L)
            src_labels = [(it[1], it[2]) for it in self._items(list(L2))]
            if op == "extend_treelist":
                L.extend(L2)
                new = list(L)[n0:]
            elif op == "iadd":
                L += L2
                new = list(L)[n0:]
            elif op == "add":
                N = L + L2
                if N.taxon_namespace is not L.taxon_namespace:
                    rec.violation("CLOSURE", {"op": op, "what": "result_namespace"}, "a + b has another namespace than a")
                    raise StopRun()
                new = list(N)[len(L):]
                if len(self.lists) < 4:
                    self.lists.append(N)
            else:
                a = st["i"] % (len(L) + 1)
                b = min(len(L), a + st["j"] % 3)
                self.removed.extend(L._trees[a:b])
                n2 = len(L2)
                L[a:b] = L2
                new = list(L)[a:a + n2]
            after = self._items(new)
            if len(after) != len(src_labels):
                rec.violation("TAXON_LOST", {"op": op}, "%s copied %d of %d taxon references" % (op, len(after), len(src_labels)))
                raise StopRun()
            self._label_rule(rec, op, [(a_[0], lab, tid) for a_, (lab, tid) in zip(after, src_labels)], L.taxon_namespace, mb_L)
            return "imported"
        if op in ("read_data", "read_path", "read_file"):
            import random
            r = random.Random(st["tseed"])
            labs = _distinct(st["labels"], L.taxon_namespace.is_case_sensitive)
            spec = gen.tree_spec(r, labs, st["shape"], "int")
            text = gen.spec_to_newick(spec) + "\n"
            n0 = len(L)
            kw = {"schema": "newick", "case_sensitive_taxon_labels": L.taxon_namespace.is_case_sensitive}
            if op == "read_data":
                L.read(data=text, **kw)
            elif op == "read_path":
                fs = SimFS()
                fs.put("/sim/t.nwk", text)
                with patched_open(fs, [basemodel]):
                    L.read(path="/sim/t.nwk", **kw)
            else:
                from ..seams.simfs import SimFile
                L.read(file=SimFile(None, "/sim/t.nwk", text), **kw)
            new = list(L)[n0:]
            if len(new) != 1:
                rec.violation("READ_WRONG", {"op": op}, "read added %d trees for one tree statement" % len(new))
                raise StopRun()
            leaves = [nd for nd in rawtree.raw_nodes(new[0]) if not nd._child_nodes]
            want = gen.spec_leaves(spec)
            if len(leaves) != len(want):
                rec.violation("READ_WRONG", {"op": op}, "read produced %d leaves for %d" % (len(leaves), len(want)))
                raise StopRun()
            self._label_rule(rec, op, list(zip(leaves, want)), L.taxon_namespace)
            return "imported"
        if op == "read_torn":
            # fault: the source was cut off by an interrupted write; the read fails and the list must be as it was
            import random
            r = random.Random(st["tseed"])
            labs = _distinct(st["labels"], L.taxon_namespace.is_case_sensitive)
            text = "".join(gen.spec_to_newick(gen.tree_spec(r, labs, st["shape"], "int")) + "\n" for _ in range(3))
            cut = max(2, (st["i"] * 7 + st["j"]) % (len(text) - 2))
            torn = text[:cut]
            n0 = len(L)
            before = list(L._trees)
            rec.fault("torn_source")
            try:
                L.read(data=torn, schema="newick", case_sensitive_taxon_labels=L.taxon_namespace.is_case_sensitive)
            except Exception:
                if len(L) != n0 or any(a is not b for a, b in zip(L._trees, before)):
                    rec.violation("CLOSURE", {"op": op, "what": "failed_read_changed_list"},
                                  "a read that failed left %d trees in a list that held %d" % (len(L), n0))
                    raise StopRun()
                return "refused"
            return "imported"       # the cut fell between two statements: a shorter, valid source
        if op == "ta_migrate":
            other = self.nss[(st["ns"] + 1) % 3]
            if other is self.ta.taxon_namespace:
                return "skip"
            rec.fault("declared_invalid_operation")
            ns0 = self.ta.taxon_namespace
            try:
                self.ta.migrate_taxon_namespace(other)
            except NotImplementedError:
                if self.ta.taxon_namespace is not ns0:
                    rec.violation("CLOSURE", {"op": op, "what": "refused_but_changed"},
                                  "TreeArray.migrate_taxon_namespace raised NotImplementedError but left the array on the other namespace")
                    raise StopRun()
                return "refused"
            return "ok"
        if op == "new_tree":
            L.new_tree()
            return "ok"
        if op == "new_tree_seed_node":
            # a node structure carrying taxa of another namespace handed to the list's tree factory
            t = self._foreign_tree(st)
            L.new_tree(seed_node=t.seed_node.extract_subtree())
            return "imported"
        if op == "new_tree_from_tree":
            t = self._foreign_tree(st)
            items_before = [(lab, tid) for _, lab, tid in self._items([t])]
            nt = L.new_tree(t)
            after = self._items([nt])
            self._label_rule(rec, op, [(a_[0], lab, tid) for a_, (lab, tid) in zip(after, items_before)], L.taxon_namespace, mb_L)
            return "imported"
        if op == "new_tree_foreign_ns":
            other = self.nss[(st["ns"] + 1) % 3]
            if other is L.taxon_namespace:
                return "skip"
            rec.fault("declared_invalid_operation")
            try:
                L.new_tree(taxon_namespace=other)
            except TypeError:
                return "refused"
            rec.violation("MISSING_ERROR", {"op": op}, "new_tree(taxon_namespace=other) accepted a foreign namespace")
            raise StopRun()
        if op in ("pop", "remove", "delitem"):
            if len(L) == 0:
                return "skip"
            idx = st["i"] % len(L)
            t = L[idx]
            if op == "pop":
                t2 = L.pop(idx)
                if t2 is not t:
                    rec.violation("WRONG_RESULT", {"op": op}, "pop returned another tree")
                    raise StopRun()
            elif op == "remove":
                L.remove(t)
            else:
                del L[idx]
            self.removed.append(t)
            return "ok"
        if op == "getslice":
            a = st["i"] % (len(L) + 1)
            S = L[a:a + st["j"] % 3]
            if S.taxon_namespace is not L.taxon_namespace:
                rec.violation("CLOSURE", {"op": op, "what": "slice_namespace"}, "slice of a tree list has another namespace")
                raise StopRun()
            return "ok"
        if op in ("migrate", "reconstruct", "update_ns"):
            items = self._items(list(L))
            mb_L = set(id(t) for t in (ns_t if op == "migrate" else L.taxon_namespace))
            if op == "migrate":
                # every other registered alias of these trees would be left behind: only migrate lists that do not share trees
                if any(o is not L and any(t in o._trees for t in L._trees) for o in self.lists):
                    return "skip"
                if any(d is L for d in self.ds.tree_lists):
                    # moving a component away behind the data set's back is the caller's doing: the data set is out of step
                    # until its namespaces are unified again - which has to bring this component back in
                    self.ds_out_of_step = True
                if st["flag"] and st["n"] == 0 and ns_t is not L.taxon_namespace:
                    # fault: the target namespace is locked; a refused migration leaves the list and every tree as they were
                    ns0 = L.taxon_namespace
                    ns_t.is_mutable = False
                    rec.fault("namespace_locked_during_import")
                    try:
                        L.migrate_taxon_namespace(ns_t, unify_taxa_by_label=st["unify"])
                    except dperror.ImmutableTaxonNamespaceError:
                        ns_t.is_mutable = True
                        if L.taxon_namespace is not ns0:
                            rec.violation("CLOSURE", {"op": op, "what": "refused_but_changed"}, "a refused migration switched the list's namespace")
                            raise StopRun()
                        rec.probe("list_migration_refused")
                        return "refused"       # (the invariant after the step judges the trees)
                    finally:
                        ns_t.is_mutable = True
                else:
                    L.migrate_taxon_namespace(ns_t, unify_taxa_by_label=st["unify"])
                if L.taxon_namespace is not ns_t:
                    rec.violation("CLOSURE", {"op": op, "what": "list_namespace"}, "migrate_taxon_namespace did not switch the list's namespace")
                    raise StopRun()
            elif op == "reconstruct":
                L.reconstruct_taxon_namespace(unify_taxa_by_label=st["unify"])
            else:
                L.update_taxon_namespace()
            if st["unify"] and op != "update_ns":
                self._label_rule(rec, op, items, L.taxon_namespace, None if op == "migrate" or op == "reconstruct" else mb_L)
            return "imported"
        if op == "ta_merge_foreign":
            # a tree array over another namespace must not be merged in - whether the receiver is empty or not
            rec.fault("declared_invalid_operation")
            t = self._foreign_tree(st)
            other = dendropy.TreeArray(taxon_namespace=t.taxon_namespace, is_rooted_trees=True)
            other.add_tree(t)
            recv = self.ta if st["flag"] else dendropy.TreeArray(taxon_namespace=self.nss[0], is_rooted_trees=True)
            how = ["extend", "iadd", "add", "update"][st["i"] % 4]
            n0 = len(recv)
            try:
                if how == "extend":
                    recv.extend(other)
                elif how == "iadd":
                    recv += other
                elif how == "add":
                    recv = recv + other
                else:
                    recv.update(other)
            except (AssertionError, dperror.TaxonNamespaceIdentityError, TypeError, ValueError):
                if len(self.ta) != (n0 if st["flag"] else len(self.ta)):
                    rec.violation("CLOSURE", {"op": op, "what": "refused_but_changed"}, "refused merge changed the receiver")
                    raise StopRun()
                return "refused"
            rec.violation("MISSING_ERROR", {"op": op + ":" + how, "receiver_empty": n0 == 0},
                          "TreeArray.%s accepted a tree array over a different taxon namespace (receiver held %d trees)" % (how, n0))
            raise StopRun()
        if op in ("ta_add_foreign", "ta_add"):
            if op == "ta_add_foreign":
                rec.fault("declared_invalid_operation")
                try:
                    self.ta.add_tree(self._foreign_tree(st))
                except dperror.TaxonNamespaceIdentityError:
                    return "refused"
                rec.violation("MISSING_ERROR", {"op": op}, "TreeArray.add_tree accepted a tree over a foreign namespace")
                raise StopRun()
            ns0 = self.ta.taxon_namespace
            labs = [t.label for t in ns0][:6]
            if len(labs) < 3 or len(set(l.lower() for l in labs)) != len(labs):
                return "skip"
            import random
            spec = gen.tree_spec(random.Random(st["tseed"]), labs, "binary", "int")
            self.ta.add_tree(gen.build_tree(dendropy, spec, ns0, is_rooted=True))
            return "ok"
        M = self.mats[st["l"] % len(self.mats)]
        if op == "m_new_sequence":
            mns = M.taxon_namespace
            cands = [t for t in mns if t not in M]
            if st["flag"] or not cands:
                rec.fault("declared_invalid_operation")
                try:
                    M.new_sequence(dendropy.Taxon(label="zz"))
                except ValueError:
                    return "refused"
                rec.violation("MISSING_ERROR", {"op": op}, "new_sequence accepted a taxon outside the matrix's namespace")
                raise StopRun()
            M.new_sequence(cands[st["i"] % len(cands)])
            return "ok"
        if op in ("m_setitem", "m_setitem_foreign"):
            if op == "m_setitem_foreign":
                rec.fault("declared_invalid_operation")
                try:
                    M[dendropy.Taxon(label="zz")] = []
                except ValueError:
                    return "refused"
                rec.violation("MISSING_ERROR", {"op": op}, "matrix[taxon]=... accepted a taxon outside the matrix's namespace")
                raise StopRun()
            mns = M.taxon_namespace
            if len(mns) == 0:
                return "skip"
            M[mns[st["i"] % len(mns)]] = []
            return "ok"
        if op in ("m_migrate", "m_reconstruct"):
            olds = [(t, t.label) for t in M]
            labels = [lab for _, lab in olds]
            cs = (ns_t if op == "m_migrate" else M.taxon_namespace).is_case_sensitive
            keyf = (lambda s: s) if cs else (lambda s: s.lower())
            collide = len(set(keyf(l) for l in labels)) != len(labels)
            try:
                if op == "m_migrate":
                    if any(d is M for d in self.ds.char_matrices):
                        return "skip"
                    M.migrate_taxon_namespace(ns_t, unify_taxa_by_label=st["unify"])
                else:
                    M.reconstruct_taxon_namespace(unify_taxa_by_label=st["unify"])
            except dperror.TaxonNamespaceReconstructionError:
                if collide and st["unify"]:
                    rec.probe("documented_reconstruction_collision")
                    # a documented refusal: the matrix still holds every sequence, and (checked after the step, like after
                    # any other) every sequence sits on a member taxon of the namespace the matrix refers to
                    if sorted(t.label for t in M._taxon_sequence_map) != sorted(labels):
                        rec.violation("TAXON_LOST", {"op": op + ":refused"}, "%s was refused, sequence labels %s became %s" % (
                            op, sorted(labels), sorted(t.label for t in M._taxon_sequence_map)))
                        raise StopRun()
                    return "refused"
                raise
            if st["unify"]:
                new_labels = sorted(keyf(t.label) for t in M)
                if new_labels != sorted(keyf(l) for l in labels):
                    rec.violation("TAXON_LOST", {"op": op}, "%s: sequence labels %s became %s" % (op, sorted(labels), [t.label for t in M]))
                    raise StopRun()
            return "imported"
        if op == "m_from_dict":
            rows = dict((l, "ACGT"[:2] if isinstance(M, dendropy.DnaCharacterMatrix) else "01") for l in st["labels"])
            type(M).from_dict(rows, char_matrix=M, case_sensitive_taxon_labels=M.taxon_namespace.is_case_sensitive)
            return "imported"
        ds = self.ds
        if op == "ds_add_list":
            if st["flag"]:
                ds.add(L)
            else:
                ds.add_tree_list(L)
            return "imported"
        if op == "ds_add_matrix":
            labels_before = [t.label for t in M._taxon_sequence_map]
            try:
                ds.add(M)
            except dperror.TaxonNamespaceReconstructionError:
                att = ds.attached_taxon_namespace
                if att is not None and _collide(labels_before, att.is_case_sensitive):
                    rec.probe("documented_reconstruction_collision")
                    return "refused"    # documented refusal: the step invariant decides whether matrix and data set are still sound
                raise
            return "imported"
        if op == "ds_new_tree_list":
            tl = ds.new_tree_list()
            if len(self.lists) < 5:
                self.lists.append(tl)
            return "ok"
        if op == "ds_new_char_matrix":
            m = ds.new_char_matrix("dna")
            if len(self.mats) < 4:
                self.mats.append(m)
            return "ok"
        if op == "ds_read":
            import random
            att = ds.attached_taxon_namespace
            cs = att.is_case_sensitive if att is not None else False
            spec = gen.tree_spec(random.Random(st["tseed"]), _distinct(st["labels"], cs), st["shape"], "int")
            ds.read(data=gen.spec_to_newick(spec), schema="newick", case_sensitive_taxon_labels=cs)
            return "imported"
        if op == "ds_attach":
            # attaching is documented to affect subsequent reads/creations; components present before are not migrated
            if len(ds.tree_lists) or len(ds.char_matrices):
                return "skip"
            ds.attach_taxon_namespace(ns_t)
            return "ok"
        if op == "ds_detach":
            ds.detach_taxon_namespace()
            return "ok"
        if op == "ds_unify":
            comps = list(ds.tree_lists) + list(ds.char_matrices)
            if not comps and not st["flag"]:
                return "skip"      # nothing to unify and no namespace given
            if any(any(t in o._trees for t in tl._trees) for tl in ds.tree_lists for o in self.lists
                   if o is not tl and not any(o is d for d in ds.tree_lists)):
                return "skip"
            labels_before = [[t.label for t in m._taxon_sequence_map] for m in ds.char_matrices]
            try:
                if st["flag"]:
                    ds.unify_taxon_namespaces(taxon_namespace=ns_t, attach_taxon_namespace=st["unify"])
                    tgt = ns_t
                else:
                    ds.unify_taxon_namespaces(attach_taxon_namespace=st["unify"])
                    tgt = None
            except dperror.TaxonNamespaceReconstructionError:
                cs = ns_t.is_case_sensitive if st["flag"] else False
                if any(_collide(lb, cs) for lb in labels_before):
                    rec.probe("documented_reconstruction_collision")
                    raise StopRun()
                raise
            for c in comps:
                if tgt is not None and c.taxon_namespace is not tgt:
                    rec.violation("CLOSURE", {"op": op, "what": "component_namespace"}, "unify_taxon_namespaces left a component on another namespace")
                    raise StopRun()
            if len(set(id(c.taxon_namespace) for c in comps)) > 1:
                rec.violation("CLOSURE", {"op": op, "what": "component_namespace"}, "unify_taxon_namespaces left components on different namespaces")
                raise StopRun()
            self.ds_out_of_step = False
            return "imported"
        raise ValueError(op)

    # ------------------------------------------------------------------
    def _invariant(self, rec, op):
        def bad(what, msg):
            rec.violation("CLOSURE", {"after": op, "what": what}, "after %s: %s" % (op, msg))
            raise StopRun()
        for k, L in enumerate(self.lists):
            ns = L.taxon_namespace
            for t in L:
                if t.taxon_namespace is not ns:
                    bad("tree_namespace", "tree list #%d holds a tree whose taxon_namespace is not the list's" % k)
                for nd in rawtree.raw_nodes(t):
                    if nd.taxon is not None and nd.taxon not in ns:
                        bad("node_taxon", "tree list #%d: node taxon %r is not a member of the list's namespace" % (k, nd.taxon.label))
        for t in self.removed:
            ns = t.taxon_namespace
            if ns is None:
                bad("removed_tree", "a tree removed from a list has no namespace")
            for nd in rawtree.raw_nodes(t):
                if nd.taxon is not None and nd.taxon not in ns:
                    bad("removed_tree", "a tree removed from a list references taxon %r outside its own namespace" % nd.taxon.label)
        for k, M in enumerate(self.mats):
            for taxon in M._taxon_sequence_map:
                if taxon not in M.taxon_namespace:
                    bad("sequence_taxon", "matrix #%d has a sequence for taxon %r outside its namespace" % (k, taxon.label))
        ds = self.ds
        att = ds.attached_taxon_namespace
        for c in ([] if self.ds_out_of_step else list(ds.tree_lists) + list(ds.char_matrices)):
            if att is not None and c.taxon_namespace is not att:
                bad("dataset_attached", "data set with an attached namespace holds a %s over another namespace" % type(c).__name__)
            if not any(c.taxon_namespace is n for n in ds.taxon_namespaces):
                bad("dataset_namespaces", "a component's namespace is not listed in the data set's taxon_namespaces")


def _collide(labels, case_sensitive):
    ks = [l if case_sensitive else str(l).lower() for l in labels]
    return len(set(ks)) != len(ks)


def _distinct(labels, case_sensitive):
    out, seen = [], set()
    for l in labels:
        k = l if case_sensitive else l.lower()
        if k not in seen:
            seen.add(k)
            out.append(l)
    return out


def make(name):
    return C11(name)
