"""C16 — parsimony scores are minimal change counts and pure functions of the
tree and matrix passed in, under every history of earlier scoring calls on one
long-lived tree object.

Reference: Sankoff dynamic programme (unit costs) over fundamental-state
indices on the raw tree, leaves constrained to their state sets from our own
IUPAC / standard tables.
"""
import dendropy
from dendropy.model import parsimony

from ..engine import Machine, StopRun
from ..model import gen, rawtree

DNA = {"A": [0], "C": [1], "G": [2], "T": [3], "R": [0, 2], "Y": [1, 3], "M": [0, 1], "W": [0, 3], "S": [1, 2], "K": [2, 3],
       "V": [0, 1, 2], "H": [0, 1, 3], "D": [0, 2, 3], "B": [1, 2, 3], "N": [0, 1, 2, 3]}
INF = 10 ** 9


def state_set(dt, sym, gaps_as_missing):
    if dt == "dna":
        n = 4
        table = DNA
    else:
        n = 10
        table = dict((str(i), [i]) for i in range(10))
    if sym[0] == "{":
        return set(int(ch) for ch in sym[1:-1])      # an uncertainty set written out in the source, e.g. {01}: a cell without a symbol
    if sym == "?":
        return set(range(n)) if gaps_as_missing else set(range(n + 1))
    if sym == "-":
        return set(range(n)) if gaps_as_missing else set([n])
    return set(table[sym])


def sankoff(tree, rows, dt, gaps_as_missing, weights):
    """Minimum number of changes per character on the raw tree."""
    nodes = rawtree.raw_nodes(tree)
    nchar = len(next(iter(rows.values()))) if rows else 0
    nstates = (4 if dt == "dna" else 10) + 1
    per_char = []
    for c in range(nchar):
        cost = {}
        for nd in reversed(nodes):
            ch = nd._child_nodes
            if not ch:
                ss = state_set(dt, rows[nd.taxon.label][c], gaps_as_missing)
                cost[id(nd)] = [0 if s in ss else INF for s in range(nstates)]
            else:
                v = []
                for s in range(nstates):
                    tot = 0
                    for k in ch:
                        ck = cost[id(k)]
                        tot += min(ck[s2] + (0 if s2 == s else 1) for s2 in range(nstates))
                    v.append(min(tot, INF))
                cost[id(nd)] = v
        m = min(cost[id(nodes[0])])
        w = 1 if weights is None else weights[c]
        per_char.append(m * w)
    return per_char


class C16(Machine):
    name = "c16"
    property_id = "C16"
    runs = {"quick": 40000, "thorough": 1200000}
    batch = 100
    rule = ("one long-lived bifurcating tree, 2-4 matrices over its namespace, 3-20 steps of scoring calls (all flag combinations), "
            "child rotations and re-rootings; distinct = sequences of (operation, matrix) with at least two different matrices scored on the same tree object")
    components = {"real": ["dendropy.model.parsimony (parsimony_score, fitch_down_pass)", "DiscreteCharacterMatrix.taxon_state_sets_map",
                           "Tree.reroot_at_edge, child reordering"],
                  "simulated": ["history of scoring calls on one tree object"]}
    assumptions = ["reference = Sankoff DP with unit costs over our own IUPAC/standard state tables (gap = missing or an extra state per flag)"]

    def __init__(self, name="c16"):
        self.name = name

    def gen(self, rng, tier):
        dt = rng.choice(["dna", "dna", "standard", "standard_multi"])
        n = rng.randint(3, 8)
        labs = gen.labels(rng, n, "plain")
        spec = gen.tree_spec(rng, labs, rng.choice(["binary", "caterpillar", "balanced"]), rng.choice(["none", "int"]))
        syms = "ACGT-?NRYMWSKVHDB" if dt == "dna" else "0123-?"
        mats = []
        for _ in range(rng.randint(2, 4)):
            nchar = rng.randint(1, 6)
            if dt == "standard_multi":
                # rows are lists of cells; some cells are uncertainty sets that have no symbol of their own; columns are often
                # copies of one another up to such a cell (what a pattern-compressing implementation has to tell apart)
                cells = ["0", "1", "0", "1", "2", "-", "?", "{01}", "{12}", "{02}", "{012}", "{13}"]
                rows = dict((l, [rng.choice(cells[:5]) for _ in range(nchar)]) for l in labs)
                for c in range(1, nchar):
                    if rng.random() < 0.6:
                        for l in labs:
                            rows[l][c] = rows[l][c - 1]
                for _ in range(rng.randint(1, 2 * nchar)):
                    rows[rng.choice(labs)][rng.randrange(nchar)] = rng.choice(cells)
                mats.append(rows)
                continue
            mats.append(gen.sequences(rng, labs, nchar, syms, easy=rng.choice([0.5, 0.8, 0.95])))
        steps = []
        ops = ["score", "score", "score", "score", "down_pass_attr", "down_pass_noattr", "rotate", "reroot", "reroot_node", "score_fresh", "edit_cell"]
        for _ in range(rng.randint(3, 50 if tier == "thorough" else 20)):
            steps.append({"op": rng.choice(ops), "m": rng.randrange(10), "gaps": rng.random() < 0.6,
                          "weights": [rng.randint(0, 3) for _ in range(6)] if rng.random() < 0.3 else None,
                          "bychar": rng.random() < 0.5, "k": rng.randrange(1000), "attr": rng.choice(["state_sets", "ss2"]),
                          "k2": rng.randrange(1000), "sym": rng.randrange(1000), "how": rng.randrange(3)})
        # "unrooted": the same binary tree drawn the way DendroPy holds unrooted trees, with a trifurcation at the seed node
        return {"config": {"data_type": dt, "labels": labs, "unrooted": rng.random() < 0.35 and n >= 3},
                "initial": {"tree": spec, "matrices": mats}, "steps": steps}

    def run(self, plan, rec):
        cfg = plan["config"]
        dt = cfg["data_type"]
        ns = dendropy.TaxonNamespace(cfg["labels"])
        tree = gen.build_tree(dendropy, plan["initial"]["tree"], ns, is_rooted=True)
        if cfg.get("unrooted"):
            tree.is_rooted = False
            tree.collapse_basal_bifurcation(set_as_unrooted_tree=True)
        cls = dendropy.DnaCharacterMatrix if dt == "dna" else dendropy.StandardCharacterMatrix
        # (the matrices are long-lived too and may be edited in place: the model rows are copies of the plan's)
        rows_list = [dict((l, list(v)) for l, v in r.items()) for r in plan["initial"]["matrices"]]
        if dt == "standard_multi":
            mats = []
            for r in rows_list:
                nchar = len(next(iter(r.values())))
                text = "#NEXUS\nBEGIN DATA;\n  DIMENSIONS NTAX=%d NCHAR=%d;\n  FORMAT DATATYPE=STANDARD SYMBOLS=\"0123456789\" MISSING=? GAP=-;\n  MATRIX\n" % (len(r), nchar)
                for l in cfg["labels"]:
                    text += "    %s  %s\n" % (l, " ".join(r[l]))
                text += "  ;\nEND;\n"
                mats.append(dendropy.StandardCharacterMatrix.get(data=text, schema="nexus", taxon_namespace=ns))
        else:
            mats = [cls.from_dict(r, taxon_namespace=ns) for r in rows_list]
        scored = []
        for i, st in enumerate(plan["steps"]):
            rec.step_index = i
            rec.steps += 1
            op = st["op"]
            j = st["m"] % len(mats)
            rows = rows_list[j]
            nchar = len(next(iter(rows.values())))
            weights = st["weights"][:nchar] if st["weights"] else None
            try:
                if op in ("score", "score_fresh", "down_pass_attr", "down_pass_noattr"):
                    target = tree
                    if op == "score_fresh":
                        target = gen.build_tree(dendropy, _spec_of(tree), ns, is_rooted=tree.is_rooted)
                    bychar = [] if st["bychar"] else None
                    if op in ("score", "score_fresh"):
                        got = parsimony.parsimony_score(target, mats[j], gaps_as_missing=st["gaps"], weights=weights,
                                                        score_by_character_list=bychar)
                    else:
                        tmap = mats[j].taxon_state_sets_map(gaps_as_missing=st["gaps"])
                        got = parsimony.fitch_down_pass(target.postorder_node_iter(),
                                                        state_sets_attr_name=st["attr"] if op == "down_pass_attr" else None,
                                                        taxon_state_sets_map=tmap, weights=weights, score_by_character_list=bychar)
                    ref = sankoff(target, rows, dt, st["gaps"], weights)
                    rec.ev("score", op, j, got)
                    if op != "score_fresh":
                        scored.append(j)
                    if got != sum(ref):
                        prev = "first scoring call on this tree" if len(scored) <= 1 else "earlier calls scored matrices %s" % scored[:-1]
                        rec.violation("SCORE_WRONG", {"op": op, "history_dependent": len(set(scored)) > 1 and op != "score_fresh"},
                                      "%s of matrix #%d (gaps_as_missing=%s, weights=%s) = %s, minimum number of changes = %s (%s)" % (
                                          op, j, st["gaps"], weights, got, sum(ref), prev))
                        raise StopRun()
                    if bychar is not None:
                        if list(bychar) != ref:
                            rec.violation("PER_CHARACTER_WRONG", {"op": op},
                                          "per-character scores %s, expected %s (total %s)" % (bychar, ref, got))
                            raise StopRun()
                elif op == "edit_cell":
                    # the matrix passed in later is the matrix as it is then: one cell replaced in place
                    lab = cfg["labels"][st["k"] % len(cfg["labels"])]
                    c = st["k2"] % nchar
                    pool = "ACGT-?NRY" if dt == "dna" else "012-?"
                    sym = pool[st["sym"] % len(pool)]
                    seq = mats[j][ns.get_taxon(lab)]
                    state = mats[j].default_state_alphabet[sym]
                    if st["how"] == 0:
                        seq[c] = state
                    elif st["how"] == 1:
                        seq.set_at(c, state)
                    else:
                        vals = list(seq.values())
                        vals[c] = state
                        mats[j][ns.get_taxon(lab)] = vals
                    rows[lab][c] = sym
                    rec.ev("edit_cell", j, lab, c, sym)
                    rec.probe("cell_edited_in_place")
                elif op == "rotate":
                    internal = [nd for nd in rawtree.raw_nodes(tree) if len(nd._child_nodes) > 1]
                    nd = internal[st["k"] % len(internal)]
                    ch = list(nd.child_nodes())
                    ch.reverse()
                    nd.set_child_nodes(ch)
                    rec.ev("rotate")
                elif op == "reroot_node":
                    # root position on an existing node: the new seed has three children, the old bifurcating seed is suppressed
                    cands = [nd for nd in rawtree.raw_nodes(tree) if nd._parent_node is not None and len(nd._child_nodes) == 2]
                    if cands:
                        tree.reroot_at_node(cands[st["k"] % len(cands)], update_bipartitions=False)
                        rec.ev("reroot_node")
                        rec.probe("rerooted_at_node")
                elif op == "reroot":
                    edges = [nd.edge for nd in rawtree.raw_nodes(tree) if nd._parent_node is not None and nd._child_nodes
                             and nd._parent_node is not tree.seed_node]
                    if edges:
                        e = edges[st["k"] % len(edges)]
                        tree.reroot_at_edge(e, update_bipartitions=False)
                        rec.ev("reroot")
                        rec.probe("rerooted")
            except StopRun:
                raise
            except Exception as e:
                import traceback
                fn = [f.name for f in traceback.extract_tb(e.__traceback__) if "dendropy" in f.filename]
                rec.violation("OP_FAILED", {"op": op, "exception": type(e).__name__, "function": fn[-1] if fn else "harness"},
                              "%s raised %s: %s" % (op, type(e).__name__, e))
                raise StopRun()
        if len(set(scored)) > 1:
            rec.nontrivial([(s["op"], s["m"] % len(mats)) for s in plan["steps"]])


def _spec_of(tree):
    def rec_(nd):
        return [nd.taxon.label if nd.taxon is not None else None, nd._edge.length, [rec_(c) for c in nd._child_nodes]]
    return rec_(tree._seed_node)


def make(name):
    return C16(name)
