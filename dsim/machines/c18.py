"""C18 — simulated trees meet their specification for every generator state and
are reproducible.

Simulated: the random source (SimRNG handed in as rng=, plain or adversarial),
trip-wires on the process-global generators, allocator perturbation between the
two runs of the reproducibility check.  Each step of a plan is one independent
simulator call.
"""
import dendropy
from dendropy.model import birthdeath, coalescent
from dendropy.simulate import treesim

from ..engine import Machine
from ..model import gen, rawtree
from ..seams import stepclock
from ..seams.simrng import SimRNG, Tripwire
from ..seams.simaddr import SimAddresses

SIMS = ["birth_death", "birth_death", "fast_birth_death", "uniform_pure_birth", "pure_kingman", "pure_kingman_shape",
        "mean_kingman", "contained_coalescent", "contained_coalescent", "constrained_kingman", "treesim_birth_death",
        "treesim_pure_kingman", "discrete_time_to_coalescence", "coalesce_nodes", "rand_trees", "containing_tree"]
BUDGET = 4000000


def _rel(a, b, tol=1e-8):
    return abs(a - b) <= tol * max(1.0, abs(a), abs(b))


class GeneratorIgnored(Exception):
    """A simulator is a function of its arguments and the generator state: it has to draw from the generator passed in."""


class _Junk(object):
    __slots__ = ("a", "b", "c")


class C18(Machine):
    name = "c18"
    property_id = "C18"
    runs = {"quick": 4000, "thorough": 300000}
    batch = 40
    rule = ("each run: 6 independent simulator calls with seeded parameters, SimRNG state (plain or adversarial) and address "
            "perturbation; distinct = (simulator, parameter class, rng mode, rare-branch probes hit)")
    components = {"real": ["birthdeath.birth_death_tree / fast_birth_death_tree / uniform_pure_birth_tree",
                           "coalescent.pure_kingman_tree(_shape) / mean_kingman_tree / contained_coalescent_tree / constrained_kingman_tree / "
                           "coalesce_nodes / (discrete_)time_to_coalescence", "simulate.treesim wrappers", "probability.*_rv"],
                  "simulated": ["random source (SimRNG passed as rng=; adversarial mode scripts extreme random() values)",
                                "trip-wires on dendropy.utility.GLOBAL_RNG and module random", "object addresses (SimAddr: seeded simulated addresses behind the id()-based __hash__ of Taxon/Node/Edge/Tree/TaxonNamespace; the second run of the reproducibility check uses another layout)"]}
    assumptions = ["a simulator call that exceeds %d step-clock ticks is abandoned and counted, not judged (the statement does not bound running time)" % BUDGET,
                   "tip heights compared with rel. tol. 1e-8; coalescence-before-divergence with abs. tol. 1e-9"]

    cross_interpreter_outputs = True

    def __init__(self, name="c18"):
        self.name = name

    def gen(self, rng, tier):
        steps = []
        for _ in range(6):
            sim = rng.choice(SIMS)
            birth = rng.choice([0.1, 0.5, 1.0, 2.0, 5.0])
            death = rng.choice([0.0, 0.0, 0.3, 0.7, 0.9, 0.98]) * birth
            nsp = rng.randint(2, 6)
            st = {"sim": sim, "seed": rng.getrandbits(48), "adversarial": rng.choice([0.0, 0.0, 0.02, 0.1]),
                  "ntips": rng.choice([2, 2, 3, 4, 5, 8, 13, 21, 40]), "birth": birth, "death": death,
                  "with_namespace": rng.random() < 0.5, "ns_fill": rng.randrange(6), "pop_size": rng.choice([None, 1, 1, 0.5, 10, 1000]),
                  "nspecies": nsp, "genes": [rng.randint(1, 5) for _ in range(nsp)],
                  # "all numbers of genes per species": one species of a mapping-based call may have no sampled gene at all
                  "zero_species": rng.randrange(nsp) if rng.random() < 0.15 else None,
                  "species_tree": gen.ultrametric_spec(rng, ["S%d" % i for i in range(nsp)]),
                  "edge_pop": rng.random() < 0.5, "root_len": rng.choice([None, None, 0.25, 2.0]), "junk": rng.choice([0, 0, 7, 101, 1000, 4096]),
                  "sd": rng.choice([0.0, 0.0, 0.1]), "period": rng.choice([None, 0.1, 1.0, 5.0]),
                  "strategy": rng.choice(["node_attribute", "node_attribute", "fixed_per_population", "random_uniform"]),
                  "reuse_species_tree": rng.random() < 0.5, "decorate": rng.random() < 0.3, "ns_label_style": rng.choice([0, 0, 1, 2]), "no_extinct_attr": rng.random() < 0.3}
            steps.append(st)
        return {"config": {}, "initial": {}, "steps": steps}

    # ------------------------------------------------------------------
    def _call(self, st, rng):
        """Build fresh arguments and call the simulator.  Returns (kind, tree or value, extra)."""
        sim = st["sim"]
        n = st["ntips"]
        if sim in ("birth_death", "fast_birth_death", "treesim_birth_death", "rand_trees"):
            kw = {"num_extant_tips": n, "rng": rng}
            if st["with_namespace"]:
                # supplied namespace: empty, smaller than, equal to or larger than the number of tips
                k = {0: 0, 1: max(1, n // 2), 2: n - 1, 3: n, 4: n, 5: n + 2}[st.get("ns_fill", 3)]
                # the simulator makes up labels T1, T2, ... for the tips the namespace cannot serve: the supplied labels may be
                # exactly those, case variants of them (the default namespace matches labels case-insensitively), or unrelated
                style = ["T%d", "t%d", "sp%d"][st.get("ns_label_style", 0)]
                kw["taxon_namespace"] = dendropy.TaxonNamespace([style % (i + 1) for i in range(k)])
            if st.get("no_extinct_attr") and sim in ("birth_death", "treesim_birth_death"):
                kw["is_add_extinct_attr"] = False       # a non-default flag: the nodes are not marked, the tree is the same
            if sim == "rand_trees":
                del kw["rng"]
                params = dict(kw, birth_rate=st["birth"], death_rate=st["death"])
                reused = bool(st.get("reuse_species_tree")) and not st["with_namespace"]
                if reused:
                    # the caller's parameter dict has served an earlier call with ANOTHER generator
                    list(treesim.rand_trees(SimRNG(st["seed"] ^ 0x77), treesim.birth_death_tree, params, 1))
                d0 = rng.draws
                trees = list(treesim.rand_trees(rng, treesim.birth_death_tree, params, 2))
                if rng.draws == d0:
                    raise GeneratorIgnored("rand_trees returned trees without drawing from the generator it was given "
                                           "(parameter dict %s before)" % ("used with another generator" if reused else "not used"))
                return "bd", trees[-1], n
            if sim == "birth_death":
                return "bd", birthdeath.birth_death_tree(st["birth"], st["death"], birth_rate_sd=st["sd"], death_rate_sd=st["sd"], **kw), n
            if sim == "treesim_birth_death":
                return "bd", treesim.birth_death_tree(st["birth"], st["death"], **kw), n
            return "bd", birthdeath.fast_birth_death_tree(st["birth"], st["death"], **kw), n
        if sim == "uniform_pure_birth":
            ns = dendropy.TaxonNamespace(["T%d" % (i + 1) for i in range(n)])
            return "bd", birthdeath.uniform_pure_birth_tree(ns, birth_rate=st["birth"], rng=rng), n
        if sim in ("pure_kingman", "treesim_pure_kingman", "mean_kingman"):
            ns = dendropy.TaxonNamespace(["T%d" % (i + 1) for i in range(n)])
            ps = st["pop_size"] or 1
            if sim == "pure_kingman":
                return "kingman", coalescent.pure_kingman_tree(ns, pop_size=ps, rng=rng), n
            if sim == "mean_kingman":
                return "kingman", coalescent.mean_kingman_tree(ns, pop_size=ps, rng=rng), n
            return "kingman", treesim.pure_kingman_tree(ns, pop_size=ps, rng=rng), n
        if sim == "pure_kingman_shape":
            return "kingman_shape", coalescent.pure_kingman_tree_shape(n, pop_size=st["pop_size"] or 1, rng=rng), n
        if sim in ("contained_coalescent", "constrained_kingman", "containing_tree"):
            labels = ["S%d" % i for i in range(st["nspecies"])]
            if st.get("reuse_species_tree") and self._species is not None:
                # many gene trees are simulated inside one species tree object: the call must not depend on what an earlier
                # call left behind on it
                sns, stree = self._species
            else:
                sns = dendropy.TaxonNamespace(labels)
                stree = gen.build_tree(dendropy, st["species_tree"], sns, is_rooted=True)
                if st.get("root_len"):
                    stree.seed_node.edge.length = st["root_len"]     # as on every tree that comes out of a simulator or a "):0.25;" Newick string
                if st["edge_pop"]:
                    for k, nd in enumerate(rawtree.raw_nodes(stree)):
                        nd.edge.pop_size = [0.5, 1.0, 2.0, 10.0][k % 4]
                self._species = (sns, stree)
            ngenes = list(st["genes"][:len(labels)])
            if st.get("zero_species") is not None and sum(ngenes) - ngenes[st["zero_species"] % len(ngenes)] >= 2:
                ngenes[st["zero_species"] % len(ngenes)] = 0
            if sim == "containing_tree":
                # the third interface to the same simulation: a species tree that holds its gene trees
                from dendropy.model import reconcile
                mapping = dendropy.TaxonNamespaceMapping.create_contained_taxon_mapping(
                    containing_taxon_namespace=sns, num_contained=ngenes)
                ct = reconcile.ContainingTree(containing_tree=stree, contained_taxon_namespace=mapping.domain_taxon_namespace,
                                              contained_to_containing_taxon_map=mapping)
                gt = ct.simulate_contained_kingman(default_pop_size=st["pop_size"] or 1, rng=rng)
                g2s = dict((g.label, mapping[g].label) for g in mapping.domain_taxon_namespace)
                return "contained", gt, (ct, g2s)
            if sim == "contained_coalescent":
                mapping = dendropy.TaxonNamespaceMapping.create_contained_taxon_mapping(
                    containing_taxon_namespace=sns, num_contained=ngenes)
                gt = coalescent.contained_coalescent_tree(stree, mapping, default_pop_size=st["pop_size"] or 1, rng=rng)
                g2s = dict((g.label, mapping[g].label) for g in mapping.domain_taxon_namespace)
                return "contained", gt, (stree, g2s)
            for k, lf in enumerate(nd for nd in rawtree.raw_nodes(stree) if not nd._child_nodes):
                lf.num_genes = st["genes"][k % len(st["genes"])]
            strategy = st.get("strategy", "node_attribute")
            kw = {}
            if strategy == "fixed_per_population":
                kw["num_genes"] = st["genes"][0]
            elif strategy == "random_uniform" and st["genes"][0] > 2:
                kw["num_genes"] = st["genes"][0] + st["nspecies"]
            if st.get("decorate"):
                kw["decorate_original_tree"] = True     # the uncoalesced gene nodes are hung on the caller's species tree
            gt, wt = coalescent.constrained_kingman_tree(stree, rng=rng, gene_sampling_strategy=strategy,
                                                         gene_node_label_fn=lambda x, y: "%s_%02d" % (x, y), **kw)
            g2s = dict((lf.taxon.label, lf.taxon.label.rsplit("_", 1)[0]) for lf in rawtree.raw_nodes(gt) if not lf._child_nodes)
            nleaves = sum(1 for nd in rawtree.raw_nodes(stree) if not nd._child_nodes)
            if strategy == "node_attribute":
                expected = sum(st["genes"][k % len(st["genes"])] for k in range(nleaves))
            elif strategy == "fixed_per_population":
                expected = kw["num_genes"] * nleaves
            else:
                expected = kw.get("num_genes") or nleaves
            return "contained", gt, (stree, g2s, expected)
        if sim == "discrete_time_to_coalescence":
            ng = max(2, n)
            frac = {None: 1.0, 1: 1.0, 0.5: 0.5, 10: 0.1, 1000: 0.01}[st["pop_size"]]
            # the function computes p = pop_size / C(n,2) for a geometric draw; keep p inside (0, 1]
            return "value", coalescent.discrete_time_to_coalescence(ng, pop_size=frac * ng * (ng - 1) / 2.0, rng=rng), None
        if sim == "coalesce_nodes":
            nodes = [dendropy.Node() for _ in range(n)]
            out = coalescent.coalesce_nodes(nodes, pop_size=st["pop_size"], period=st["period"], rng=rng)
            return "forest", out, n
        raise ValueError(sim)

    def _guarded(self, st, rng, addr_seed):
        clock = stepclock.get_clock()
        g = clock.guard(BUDGET)
        res = None
        exc = None
        post = None
        with SimAddresses(addr_seed), Tripwire() as tw:
            with g:
                try:
                    res = self._call(st, rng)
                except stepclock.StepBudgetExceeded:
                    raise
                except Exception as e:
                    exc = e
            if res is not None and not g.expired:
                # judged while the simulated address layout is still in force (namespace
                # membership tests hash the taxa)
                post = (self._canon(res[0], res[1]), self._spec(res[0], res[1], res[2], st))
        return (res, post), exc, g, tw.tripped

    def run(self, plan, rec):
        # the process-global generators are a nondeterminism source too: the simulator owns their state
        import random as _random
        from dendropy.utility import GLOBAL_RNG
        GLOBAL_RNG.seed(20260101)
        _random.seed(20260102)
        keep = []
        for i, st in enumerate(plan["steps"]):
            rec.step_index = i
            rec.steps += 1
            sim = st["sim"]
            rng = SimRNG(st["seed"], adversarial=st["adversarial"])
            state0 = rng.getstate()
            self._species = None
            (res, post), exc, g, tripped = self._guarded(st, rng, st["seed"] ^ 0x5555)
            rec.ticks += g.used
            if g.expired:
                rec.probe("budget_exceeded_not_judged")
                rec.ev("sim", sim, "abandoned")
                continue
            if rng.n_scripted:
                rec.fault("scripted_extreme_random_value", rng.n_scripted)
            base = {"sim": sim}
            if exc is not None:
                import traceback
                fn = [f.name for f in traceback.extract_tb(exc.__traceback__) if "dendropy" in f.filename]
                rec.violation("SIM_FAILED", dict(base, exception=type(exc).__name__, function=fn[-1] if fn else "harness",
                                                 adversarial=bool(st["adversarial"])),
                              "%s raised %s: %s (params %s)" % (sim, type(exc).__name__, exc, _params(st)))
                continue
            if tripped:
                rec.violation("STRAY_RANDOMNESS", dict(base, source=tripped[0]),
                              "%s called with an explicit rng= also drew from %s" % (sim, ", ".join(tripped)))
            kind, obj, extra = res
            canon1, bad = post
            draws1 = rng.draws
            if bad:
                rec.violation("SPEC_VIOLATED", dict(base, what=bad[0], adversarial=bool(st["adversarial"])),
                              "%s: %s (params %s)" % (sim, bad[1], _params(st)))
            # reproducibility: same generator state, arguments rebuilt (other addresses)
            keep.append(obj)
            rec.fault("address_layout_changed")
            if st["junk"]:
                keep.append([_Junk() for _ in range(st["junk"])] + [dendropy.Taxon(label="j") for _ in range(st["junk"] % 17)])
            rng.setstate(state0)
            (res2, post2), exc2, g2, _ = self._guarded(st, rng, st["seed"] ^ (0xABCDEF + st["junk"]))
            rec.ticks += g2.used
            if g2.expired or exc2 is not None:
                if not g2.expired:
                    rec.violation("NOT_REPRODUCIBLE", dict(base, what="second_run_raised"),
                                  "%s: second run from the same generator state raised %s: %s" % (sim, type(exc2).__name__, exc2))
                continue
            canon2 = post2[0]
            if canon1 != canon2 or rng.draws != draws1:
                rec.violation("NOT_REPRODUCIBLE", dict(base, what="different_tree" if canon1 != canon2 else "different_number_of_draws"),
                              "%s: two runs from equal generator states differ (params %s): %s vs %s" % (
                                  sim, _params(st), str(canon1)[:200], str(canon2)[:200]))
            rec.ev("sim", sim)
            rec.out(canon1)     # must not depend on the interpreter (PYTHONHASHSEED): compared across interpreters by the driver
            rec.nontrivial((sim, st["ntips"], round(st["death"] / st["birth"], 2), st["adversarial"], st.get("ns_fill") if st["with_namespace"] else None,
                            st["pop_size"], sorted(self._probes(kind, obj, st))))
        del keep[:]

    def _probes(self, kind, obj, st):
        out = []
        if kind == "contained" and max(st["genes"]) > 1:
            out.append("multi_gene_species")
        if st["death"] >= 0.9 * st["birth"] > 0:
            out.append("near_critical")
        return out

    # ------------------------------------------------------------------
    def _canon(self, kind, obj):
        if kind == "value":
            return repr(obj)
        if kind == "forest":
            return sorted(_node_newick(nd) for nd in obj)
        return rawtree.newick(obj)

    def _spec(self, kind, obj, extra, st):
        if kind == "value":
            if not (obj >= 0):
                return ("negative_time", "waiting time %r" % obj)
            return None
        if kind == "forest":
            n = extra
            leaves = 0
            for root in obj:
                stack = [root]
                while stack:
                    nd = stack.pop()
                    if nd._child_nodes:
                        if len(nd._child_nodes) != 2:
                            return ("not_bifurcating", "coalesce_nodes produced a node with %d children" % len(nd._child_nodes))
                        stack.extend(nd._child_nodes)
                    else:
                        leaves += 1
            if leaves != n:
                return ("leaf_count", "coalesce_nodes: %d leaves in the result for %d input nodes" % (leaves, n))
            if st["period"] is None and len(obj) != 1:
                return ("not_coalesced", "coalesce_nodes without period returned %d lineages" % len(obj))
            return None
        tree = obj
        try:
            nodes = rawtree.check_arborescence(tree)
        except rawtree.Malformed as m:
            return ("malformed", str(m))
        leaves = [nd for nd in nodes if not nd._child_nodes]
        for nd in nodes:
            if nd._child_nodes and len(nd._child_nodes) != 2:
                return ("not_bifurcating", "internal node with %d children" % len(nd._child_nodes))
        depth = {id(nodes[0]): 0.0}
        for nd in nodes[1:]:
            depth[id(nd)] = depth[id(nd._parent_node)] + (nd._edge.length or 0.0)
        if kind in ("bd", "kingman", "kingman_shape"):
            n = extra
            if len(leaves) != n:
                return ("leaf_count", "%d leaves, %d requested" % (len(leaves), n))
            if kind != "kingman_shape":
                taxa = [lf.taxon for lf in leaves]
                if any(t is None for t in taxa):
                    return ("leaf_without_taxon", "a leaf has no taxon")
                if len(set(id(t) for t in taxa)) != n:
                    return ("taxa_not_distinct", "%d distinct taxa on %d leaves" % (len(set(id(t) for t in taxa)), n))
                if any(t not in tree.taxon_namespace for t in taxa):
                    return ("taxon_not_in_namespace", "a leaf taxon is not a member of the tree's namespace")
                if kind == "kingman" and len(tree.taxon_namespace) == n:
                    if set(id(t) for t in taxa) != set(id(t) for t in tree.taxon_namespace):
                        return ("not_one_leaf_per_taxon", "leaves do not carry each taxon of the namespace exactly once")
            ds = [depth[id(lf)] for lf in leaves]
            if not all(_rel(d, ds[0]) for d in ds):
                return ("not_ultrametric", "tip depths differ: min %r max %r" % (min(ds), max(ds)))
            return None
        if kind == "contained":
            stree, g2s = extra[0], extra[1]
            snodes, sbelow = rawtree.clade_sets(stree, key=lambda t: t.label)
            sdepth = {id(snodes[0]): 0.0}
            for nd in snodes[1:]:
                sdepth[id(nd)] = sdepth[id(nd._parent_node)] + (nd._edge.length or 0.0)
            sheight = max(sdepth[id(nd)] for nd in snodes if not nd._child_nodes)
            sage = dict((id(nd), sheight - sdepth[id(nd)]) for nd in snodes)

            def div_age(a, b):
                best = None
                for nd in snodes:
                    c = sbelow[id(nd)]
                    if a in c and b in c:
                        if best is None or len(c) < len(sbelow[id(best)]):
                            best = nd
                return sage[id(best)]
            want = extra[2] if len(extra) > 2 else sum(1 for _ in g2s)
            if len(leaves) != want:
                return ("leaf_count", "gene tree has %d leaves for %d genes" % (len(leaves), want))
            labs = [lf.taxon.label if lf.taxon is not None else None for lf in leaves]
            if len(set(labs)) != len(labs) or any(l not in g2s for l in labs):
                return ("gene_taxa", "gene leaves do not carry each gene taxon exactly once: %s" % labs)
            if any(lf.taxon not in tree.taxon_namespace for lf in leaves):
                return ("taxon_not_in_namespace", "a gene leaf's taxon is not a member of the gene tree's namespace")
            anc = {}
            for lf in leaves:
                chain = []
                nd = lf
                d = 0.0
                while nd is not None:
                    chain.append((id(nd), d))
                    d += (nd._edge.length or 0.0)
                    nd = nd._parent_node
                anc[id(lf)] = chain
            for i in range(len(leaves)):
                for j in range(i + 1, len(leaves)):
                    a, b = leaves[i], leaves[j]
                    sa, sb = g2s[a.taxon.label], g2s[b.taxon.label]
                    if sa == sb:
                        continue
                    db = dict(anc[id(b)])
                    for nid, da in anc[id(a)]:
                        if nid in db:
                            t = min(da, db[nid])
                            need = div_age(sa, sb)
                            if t < need - 1e-9 * max(1.0, need):
                                return ("coalescence_before_divergence",
                                        "genes %s and %s (species %s, %s) coalesce %r before the present but the species diverged %r ago" % (
                                            a.taxon.label, b.taxon.label, sa, sb, t, need))
                            break
            return None
        return None


def _node_newick(nd):
    ch = nd._child_nodes
    s = ("(" + ",".join(_node_newick(c) for c in ch) + ")") if ch else "x"
    return s + ":" + repr(nd._edge.length)


def hash_str(s):
    import hashlib
    return hashlib.sha256(str(s).encode()).hexdigest()[:16]


def _params(st):
    return dict((k, st[k]) for k in ("seed", "adversarial", "ntips", "birth", "death", "pop_size", "genes", "with_namespace", "ns_fill", "sd", "period") if k in st)


def make(name):
    return C18(name)
