"""C06 machine B — SumTrees under a simulated scheduler.

The real ``sumtrees.main()`` (argument parsing, TreeProcessor,
TreeAnalysisWorker.run, readers, TreeArray.update, summarisation, writer) runs
in one process.  Simulated: the worker *processes* (SimProc baton threads), the
multiprocessing queues and lock (ideal or faithful model), pickling across the
process boundary, cpu_count, the clock and the file system.

Oracle: the same argv without -m/-M (serial) and under the schedule must give
the same exit-status class and the same summary tree (splits, rooting,
supports, lengths, annotations).  DEADLOCK / scheduler limit = liveness
violation.
"""
import datetime as _real_datetime
import io
import multiprocessing as _real_mp
import os as _real_os
import re
import sys

import dendropy
from dendropy.application import sumtrees
from dendropy.datamodel import basemodel
from dendropy.dataio import ioservice
from dendropy.utility import cli as dcli

from ..engine import Machine
from ..model import gen
from ..seams import simproc
from ..seams.simfs import SimFS, patched_open

VARIANTS = ["c06b:ideal", "c06b:faithful"]


class _OsPathProxy(object):
    def __init__(self, fs):
        self._fs = fs

    def exists(self, p):
        return self._fs.exists(p)

    def __getattr__(self, name):
        return getattr(_real_os.path, name)


class _OsProxy(object):
    def __init__(self, fs):
        self.path = _OsPathProxy(fs)

    def __getattr__(self, name):
        return getattr(_real_os, name)


class _SimDateTimeModule(object):
    """Replacement for the ``datetime`` module global of sumtrees: now() is
    driven by the scheduler's logical time plus scripted jumps."""

    def __init__(self, clock_fn):
        outer = self

        class _DT(_real_datetime.datetime):
            @classmethod
            def now(cls, tz=None):
                return _real_datetime.datetime(2020, 1, 1) + _real_datetime.timedelta(seconds=clock_fn())
        self.datetime = _DT
        self.timedelta = _real_datetime.timedelta
        self.date = _real_datetime.date


class _ShimMP(object):
    Process = _real_mp.Process

    def __init__(self, sched, model, rec, cpu_count, max_delay=6):
        self._max_delay = max_delay
        self._sched = sched
        self._model = model
        self._rec = rec
        self._cpu = cpu_count
        self._nq = 0

    def Queue(self, *a, **k):
        self._nq += 1
        return simproc.SimQueue(self._sched, "q%d" % self._nq, model=self._model, rec=self._rec, max_delay=self._max_delay)

    def Lock(self):
        return simproc.SimLock(self._sched)

    def cpu_count(self):
        return self._cpu


def make_files(rng, deep=False):
    """Input files (name -> text) plus the argv options that go with them."""
    ntax = rng.randint(4, 10 if deep else 7)
    labs = gen.labels(rng, ntax, rng.choice(["plain", "alpha", "under"]))
    rooting_src = rng.choice(["explicit_rooted", "explicit_unrooted", "implicit", "forced_rooted", "forced_unrooted"])
    node_ages = rooting_src in ("explicit_rooted", "forced_rooted") and rng.random() < 0.35
    weighted = rng.random() < 0.3
    with_lengths = node_ages or rng.random() < 0.7
    schema = rng.choice(["newick", "nexus"])
    nfiles = rng.randint(2, 9 if deep else 6)
    burnin = rng.choice([0, 0, 0, 1, 2])
    files = {}
    names = []
    total_after_burnin = 0
    for fi in range(nfiles):
        if fi == 0:
            # (the first source normally has trees left after the burn-in; now and then it holds none at all - the
            # parallel mode takes the taxon names from the first tree it can find)
            nt = 0 if rng.random() < 0.12 else rng.randint(burnin + 1, burnin + 4)
        else:
            nt = rng.randint(0, 9 if deep else 5)
        trees = []
        for _ in range(nt):
            if node_ages:
                spec = gen.ultrametric_spec(rng, labs)
            else:
                spec = gen.tree_spec(rng, labs, rng.choice(["binary", "poly", "caterpillar", "balanced", "star"]),
                                     "dyadic" if with_lengths else "none")
            tok = {"explicit_rooted": True, "explicit_unrooted": False}.get(rooting_src)
            s = gen.spec_to_newick(spec, rooting=tok)
            if weighted:
                w = rng.choice(["[&W 1/2] ", "[&W 0.25] ", "[&W 2] ", "", "[&W 1] "])
                s = w + s
            trees.append(s)
        total_after_burnin += max(0, nt - burnin)
        name = "/sim/in%d.%s" % (fi, "tre" if schema == "newick" else "nex")
        if schema == "newick":
            text = "\n".join(trees) + ("\n" if trees else "")
        else:
            text = "#NEXUS\nBEGIN TAXA;\n  DIMENSIONS NTAX=%d;\n  TAXLABELS %s;\nEND;\nBEGIN TREES;\n" % (
                ntax, " ".join(gen.nexus_quote(l) for l in labs))
            for i, t in enumerate(trees):
                text += "  TREE t%d = %s\n" % (i, t)
            text += "END;\n"
        files[name] = text
        names.append(name)
    opts = []
    if rng.random() < 0.5:
        opts += ["-i", schema]
    if rooting_src == "forced_rooted":
        opts += ["--rooted"]
    elif rooting_src == "forced_unrooted":
        opts += ["--unrooted"]
    if burnin:
        opts += ["-b", str(burnin)]
    if weighted:
        opts += ["--weighted-trees"]
    if node_ages:
        opts += ["--summarize-node-ages"]
    summ = rng.choice(["consensus", "consensus", "mcct", "msct"])
    opts += ["-s", summ]
    if summ == "consensus" and rng.random() < 0.5:
        opts += ["-f", rng.choice(["0.5", "0.25", "0.75", "0.95", "0.1"])]
    if rng.random() < 0.4:
        ch = ["mean-length", "median-length", "support", "clear"]
        if node_ages:
            ch += ["mean-age", "median-age"]
        opts += ["-e", rng.choice(ch)]
    if rng.random() < 0.3:
        opts += ["-l", rng.choice(["support", "keep", "clear"])]
    if rng.random() < 0.3:
        opts += ["-p"]
    if rng.random() < 0.3:
        opts += ["-d", str(rng.randint(0, 6))]
    if rng.random() < 0.2:
        opts += ["--suppress-annotations"]
    outfmt = rng.choice(["newick", "nexus"])
    opts += ["-F", outfmt]
    logfreq = rng.choice([0, 0, 1, 2])
    return {"files": files, "names": names, "opts": opts, "outfmt": outfmt, "logfreq": logfreq,
            "schema": schema, "rooting_src": rooting_src, "ntrees": total_after_burnin}


class C06B(Machine):
    property_id = "C06"
    batch = 25
    watchdog = 900
    components = {
        "real": ["dendropy.application.sumtrees.main (argument parsing, TreeProcessor, TreeAnalysisWorker.run, "
                 "_read_into_tree_array)", "Tree.yield_from_files / TreeArray.read_from_files", "Newick/NEXUS readers",
                 "TreeArray.update", "SplitDistribution and summarisation", "output writers"],
        "simulated": ["worker processes (baton-passing threads, every sync point a scheduling decision)",
                      "multiprocessing.Queue / Lock (ideal or faithful model)", "pickling across the process boundary",
                      "cpu_count", "datetime clock", "file system (SimFS)"],
    }

    def __init__(self, name):
        self.name = name
        self.model = name.split(":")[1]
        self.runs = {"quick": 2500, "thorough": 60000}
        self.rule = ("seeded input files/options/worker count and one seeded schedule per run (queue model: %s); distinct = "
                     "(file->worker assignment, arrival order of results) with >=2 workers taking part or an idle worker "
                     "result arriving, and a non-empty summary" % self.model)
        self.assumptions = [
            "workers are threads of one interpreter; isolation is approximated by pickling everything that crosses a queue",
            "serial run (no -m) is the reference for the parallel run of the same argv",
        ]
        if self.model == "faithful":
            self.assumptions.append(
                "faithful queue model = ideal FIFO + two documented CPython multiprocessing.Queue behaviours: put() becomes visible "
                "after a feeder delay; get(block=False) raises Empty while another process holds the reader lock")

    # ------------------------------------------------------------------
    def gen(self, rng, tier):
        f = make_files(rng, deep=(tier == "thorough"))
        nfiles = len(f["names"])
        nworkers = rng.randint(2, nfiles + 2)
        use_M = rng.random() < 0.15
        cpu = rng.randint(1, 8)
        faults = {
            "clock_jumps": rng.random() < 0.2,
            "torn_file": rng.random() < 0.08,
        }
        if faults["torn_file"]:
            victim = rng.choice(f["names"][1:])   # the first file must stay readable: parallel mode takes the taxa from it
            t = f["files"][victim]
            f["files"][victim] = t[:rng.randrange(len(t) + 1)] if t else t
            f["torn"] = victim
        nchoices = rng.choice([0, 20, 60, 150, 400])
        pre = rng.choice([0.1, 0.3, 0.6])
        choices = [(rng.randrange(1, 997) if rng.random() < pre else 0) for _ in range(nchoices)]
        return {
            "config": {"queue_model": self.model, "feeder_max_delay": rng.choice([2, 6, 20, 60]), "nworkers": nworkers, "use_M": use_M, "cpu_count": cpu,
                       "opts": f["opts"], "outfmt": f["outfmt"], "logfreq": f["logfreq"], "faults": faults,
                       "names": f["names"]},
            "initial": {"files": f["files"]},
            "steps": choices,
        }

    def sample_of(self, plan):
        p = dict(plan)
        p["steps"] = "%d schedule choices: %s..." % (len(plan["steps"]), plan["steps"][:20])
        return p

    # ------------------------------------------------------------------
    def _argv(self, cfg, parallel):
        argv = ["sumtrees", "-r", "-o", "/sim/out.tre", "--no-analysis-metainformation"]
        if cfg["logfreq"]:
            argv += ["-g", str(cfg["logfreq"])]
        else:
            argv += ["-q"]
        argv += list(cfg["opts"])
        if parallel:
            if cfg["use_M"]:
                argv += ["-M"]
            else:
                argv += ["-m", str(cfg["nworkers"])]
        argv += list(cfg["names"])
        return argv

    def _invoke(self, plan, rec, parallel):
        """Run sumtrees.main() once.  Returns dict(status, out, err, info)."""
        cfg = plan["config"]
        fs = SimFS()
        for k, v in plan["initial"]["files"].items():
            fs.put(k, v)
        choices = plan["steps"] if parallel else []
        sched = simproc.Scheduler(choices, rec=rec if parallel else None, max_decisions=10000)
        shim = _ShimMP(sched, cfg["queue_model"] if parallel else "ideal", rec if parallel else None, cfg["cpu_count"],
                       max_delay=cfg.get("feeder_max_delay", 6))
        jumps = {"n": 0}

        def clock_fn():
            t = sched.now
            if cfg["faults"].get("clock_jumps"):
                j = sched.choice(5, "clock")
                if j:
                    jumps["n"] += 1
                    if parallel:
                        rec.fault("F4_clock_jump")
                    t += [0, 3600, -3600, 86400, -5][j]
            return t

        info = {"assign": {}, "arrivals": [], "idle_after_nonempty": False}
        W = sumtrees.TreeAnalysisWorker
        saved = {
            "mp": sumtrees.multiprocessing, "os": sumtrees.os, "dt": sumtrees.datetime,
            "start": W.__dict__.get("start"), "terminate": W.__dict__.get("terminate"),
            "join": W.__dict__.get("join"), "is_alive": W.__dict__.get("is_alive"),
            "argv": sys.argv, "stdout": sys.stdout, "stderr": sys.stderr, "stdin": sys.stdin,
        }

        def w_start(self_w):
            sched.spawn(self_w.name, self_w.run)
            sched.yield_point("proc.start")

        def w_terminate(self_w):
            self_w.kill_received = True
            sched.kill(self_w.name)

        def w_join(self_w, timeout=None):
            sched.yield_point("proc.join", lambda: sched.tasks[self_w.name].state == "done")

        def w_alive(self_w):
            t = sched.tasks.get(self_w.name)
            return t is not None and t.state != "done"

        # observe assignment / arrival order without touching library code paths
        orig_read = sumtrees._read_into_tree_array

        def obs_read(*a, **k):
            srcs = k.get("tree_sources")
            cur = sched.current.name if sched.current is not None else "main"
            info["assign"].setdefault(cur, []).extend(str(s) for s in srcs)
            return orig_read(*a, **k)

        out = io.StringIO()
        err = io.StringIO()
        real_messaging = sumtrees.messaging

        class _CM(real_messaging.ConsoleMessenger):
            def __init__(self_m, *a, **k):
                k.setdefault("dest", err)
                real_messaging.ConsoleMessenger.__init__(self_m, *a, **k)

        class _MessagingProxy(object):
            ConsoleMessenger = _CM

            def __getattr__(self_p, name):
                return getattr(real_messaging, name)
        status = None
        crash = None
        sumtrees.multiprocessing = shim
        sumtrees.messaging = _MessagingProxy()
        sumtrees.os = _OsProxy(fs)
        sumtrees.datetime = _SimDateTimeModule(clock_fn)
        sumtrees._read_into_tree_array = obs_read
        W.start = w_start
        W.terminate = w_terminate
        W.join = w_join
        W.is_alive = w_alive
        sys.argv = self._argv(cfg, parallel)
        sys.stdout = out
        sys.stderr = err
        sys.stdin = io.StringIO("")
        try:
            with patched_open(fs, [sumtrees, ioservice, basemodel]):
                def body():
                    try:
                        sumtrees.main()
                        return 0
                    except SystemExit as e:
                        return e.code if isinstance(e.code, int) else (0 if e.code is None else 1)
                try:
                    status = sched.run_main(body)
                except simproc.Deadlock as e:
                    crash = ("DEADLOCK", str(e))
                except simproc.SchedulerLimit as e:
                    crash = ("SCHED_LIMIT", str(e))
                except Exception as e:  # main() died with a traceback
                    crash = ("CRASH", "%s: %s" % (type(e).__name__, e))
        finally:
            sumtrees.multiprocessing = saved["mp"]
            sumtrees.messaging = real_messaging
            sumtrees.os = saved["os"]
            sumtrees.datetime = saved["dt"]
            sumtrees._read_into_tree_array = orig_read
            for k in ("start", "terminate", "join", "is_alive"):
                if saved[k] is None:
                    try:
                        delattr(W, k)
                    except AttributeError:
                        pass
                else:
                    setattr(W, k, saved[k])
            sys.argv = saved["argv"]
            sys.stdout = saved["stdout"]
            sys.stderr = saved["stderr"]
            sys.stdin = saved["stdin"]
        worker_excs = [(n, t.exc) for n, t in sched.tasks.items() if t.exc is not None]
        return {"status": status, "crash": crash, "out": fs.files.get("/sim/out.tre"), "err": err.getvalue(),
                "info": info, "sched": sched, "worker_excs": worker_excs}

    # ------------------------------------------------------------------
    def run(self, plan, rec):
        cfg = plan["config"]
        serial = self._invoke(plan, rec, parallel=False)
        par = self._invoke(plan, rec, parallel=True)
        rec.steps += 2
        sched = par["sched"]
        base = {"queue_model": cfg["queue_model"]}
        ntasks = len(sched.tasks) - 1
        if ntasks > len(cfg["names"]):
            rec.fault("F6_more_workers_than_files")
        if sched.preemptions:
            rec.fault("F1_preemption", sched.preemptions)
        if cfg["faults"].get("torn_file"):
            rec.fault("F5_torn_input_file")
        for n, e in par["worker_excs"]:
            if not isinstance(e, (simproc.Deadlock,)):
                rec.probe("worker_raised_outside_protocol")
        sclass = self._status_class(serial)
        pclass = self._status_class(par)
        rec.ev("status", sclass, pclass)
        assign = dict((k, v) for k, v in par["info"]["assign"].items())
        rec.ev("assign", sorted(assign.items()))
        if par["crash"] is not None and par["crash"][0] in ("DEADLOCK", "SCHED_LIMIT"):
            rec.violation("LIVENESS", dict(base, kind=par["crash"][0]),
                          "parallel SumTrees did not finish: %s; argv=%s" % (par["crash"][1], self._argv(cfg, True)))
            return
        if sclass != pclass:
            cause = _cause(par["err"] if pclass != "ok" else serial["err"])
            rec.violation("STATUS_DIFFERS", dict(base, serial=sclass, parallel=pclass, cause=cause),
                          "serial run: %s, parallel run: %s (%s); argv=%s; stderr tail: %s" % (
                              sclass, pclass, par["crash"], " ".join(self._argv(cfg, True)), _tail(par["err"] if pclass != "ok" else serial["err"])))
            return
        if sclass != "ok":
            rec.probe("both_failed")
            return
        try:
            cs = _canon_output(serial["out"], cfg["outfmt"])
            cp = _canon_output(par["out"], cfg["outfmt"])
        except Exception as e:
            rec.violation("OUTPUT_UNREADABLE", dict(base, exception=type(e).__name__),
                          "could not parse SumTrees output: %s" % e)
            return
        diff = _diff(cs, cp)
        if diff and diff[0] in ("splits", "edge_length", "node_annotations", "edge_annotations", "support_label") \
                and ("mcct" in cfg["opts"] or "msct" in cfg["opts"]):
            if not _mc_maximiser_unique(plan):
                rec.probe("mc_tie_topology_not_compared")
                diff = None
        if diff:
            rec.violation("SUMMARY_DIFFERS", dict(base, what=diff[0]),
                          "serial and parallel summaries differ (%s): %s; argv=%s; assignment=%s" % (
                              diff[0], diff[1], " ".join(self._argv(cfg, True)), sorted(assign.items())))
            return
        # coverage accounting
        workers_used = [k for k, v in assign.items() if v]
        idle = ntasks - len(workers_used)
        if idle > 0:
            rec.probe("idle_worker")
        if len(workers_used) >= 2 or idle > 0:
            rec.nontrivial((sorted(assign.items()), sched.trace.count("main") and _arrival_key(sched.trace)))

    @staticmethod
    def _status_class(r):
        if r["crash"] is not None:
            return "crash"
        return "ok" if r["status"] in (0, None) else "error"

    # ------------------------------------------------------------------
    def simplify(self, plan):
        import copy
        steps = plan["steps"]
        # fewer pre-emptions: zero out single choices
        nz = [i for i, c in enumerate(steps) if c]
        for i in nz[:60]:
            cand = copy.deepcopy(plan)
            cand["steps"][i] = 0
            yield cand
        cfg = plan["config"]
        if cfg["nworkers"] > 2 and not cfg["use_M"]:
            cand = copy.deepcopy(plan)
            cand["config"]["nworkers"] -= 1
            yield cand
        if cfg["logfreq"]:
            cand = copy.deepcopy(plan)
            cand["config"]["logfreq"] = 0
            yield cand
        if len(cfg["names"]) > 2:
            for i in range(1, len(cfg["names"])):
                cand = copy.deepcopy(plan)
                nm = cand["config"]["names"].pop(i)
                cand["initial"]["files"].pop(nm, None)
                yield cand
        # drop options one at a time (flag or flag+value)
        opts = cfg["opts"]
        i = 0
        while i < len(opts):
            j = i + 1
            while j < len(opts) and not opts[j].startswith("-"):
                j += 1
            if opts[i] not in ("-F",):
                cand = copy.deepcopy(plan)
                cand["config"]["opts"] = opts[:i] + opts[j:]
                yield cand
            i = j
        for k in cfg["faults"]:
            if cfg["faults"][k]:
                cand = copy.deepcopy(plan)
                cand["config"]["faults"][k] = False
                yield cand


def _mc_maximiser_unique(plan):
    """Is the maximum-credibility topology determined uniquely?  The scores are
    the ones the collection itself reports (a serial TreeArray built here from
    the same sources with the same settings); the topologies are compared by our
    own split extraction.  Unique = all trees attaining the maximum score (rel.
    tol. 1e-9) have the same split set."""
    from ..model import rawtree
    cfg = plan["config"]
    opts = cfg["opts"]
    burnin = int(opts[opts.index("-b") + 1]) if "-b" in opts else 0
    weighted = "--weighted-trees" in opts
    rooting = None
    is_rooted = None
    if "--rooted" in opts:
        rooting, is_rooted = "force-rooted", True
    elif "--unrooted" in opts:
        rooting, is_rooted = "force-unrooted", False
    ns = dendropy.TaxonNamespace()
    ta = dendropy.TreeArray(taxon_namespace=ns, is_rooted_trees=is_rooted, use_tree_weights=weighted)
    splitsets = []
    for nm in cfg["names"]:
        text = plan["initial"]["files"][nm]
        schema = "nexus/newick"
        from ..seams.simfs import SimFile
        tl = list(dendropy.Tree.yield_from_files([SimFile(None, nm, text)], schema=schema, taxon_namespace=ns, rooting=rooting,
                                                 store_tree_weights=weighted))
        for t in tl[burnin:]:
            sl, _ = rawtree.split_lengths(t, rooted=bool(t.is_rooted))
            splitsets.append(frozenset(sl))
            ta.add_tree(t)
    if not splitsets:
        return True
    if "mcct" in opts:
        scores, _ = ta.calculate_log_product_of_split_supports()
    else:
        scores, _ = ta.calculate_sum_of_split_supports()
    mx = max(scores)
    top = set(ss for sc, ss in zip(scores, splitsets) if abs(sc - mx) <= 1e-9 * max(1.0, abs(mx)))
    return len(top) == 1


def _arrival_key(trace):
    # order in which distinct workers first finished is visible as the order of their last appearance
    last = {}
    for i, n in enumerate(trace):
        last[n] = i
    return [n for n, _ in sorted(last.items(), key=lambda x: x[1]) if n != "main"]


def _tail(s, n=300):
    s = s.strip().replace("\n", " | ")
    return s[-n:]


def _cause(err):
    e = " ".join(err.split())
    if "[ERROR]" in e:
        e = e[e.rindex("[ERROR]") + 7:].strip()
    if "incompatible TreeArray" in e:
        m = re.search(r"'(\w+)' should be '(\w+)', but is instead '(\w+)'", e)
        return "incompatible_treearray_update:%s" % ("/".join(m.groups()) if m else "?")
    if "No trees retained" in e:
        return "no_trees_retained"
    if "Mixed rooting" in e:
        return "mixed_rooting"
    m = re.findall(r"(\w+(?:Error|Exception))", e)
    if m:
        return m[-1]
    e = re.sub(r"'[^']*'", "'..'", e)
    return re.sub(r"[0-9]+", "#", e)[:60] if e else "?"


def _canon_output(text, fmt):
    if text is None:
        return None
    tl = dendropy.TreeList.get(data=text, schema=fmt, extract_comment_metadata=True, suppress_internal_node_taxa=True)
    out = []
    for tree in tl:
        leaves = sorted(nd.taxon.label for nd in tree.leaf_node_iter() if nd.taxon is not None)
        lo = leaves[0] if leaves else None
        allk = frozenset(leaves)
        nodes = {}
        rooted = tree.is_rooted
        for nd in tree.postorder_node_iter():
            c = frozenset(l.taxon.label for l in nd.leaf_iter() if l.taxon is not None)
            if not rooted and lo in c:
                c = allk - c
            ann = dict((a.name, a.value) for a in nd.annotations)
            eann = dict((a.name, a.value) for a in nd.edge.annotations)
            key = tuple(sorted(c))
            # on unrooted trees the two edges at a bifurcating root induce the same split: merge
            ent = nodes.setdefault(key, {"label": [], "length": 0.0, "has_length": False, "ann": [], "eann": []})
            ent["label"].append(nd.label)
            if nd.edge.length is not None:
                ent["length"] += nd.edge.length
                ent["has_length"] = True
            ent["ann"].append(ann)
            ent["eann"].append(eann)
        out.append({"rooted": rooted, "nodes": nodes, "tree_ann": dict((a.name, a.value) for a in tree.annotations),
                    "weight": tree.weight})
    return out


def _num(x):
    try:
        return float(x)
    except (TypeError, ValueError):
        return None


def _close(a, b, tol=1e-9):
    if a == b:
        return True
    if isinstance(a, (list, tuple)) and isinstance(b, (list, tuple)) and len(a) == len(b):
        return all(_close(x, y) for x, y in zip(a, b))
    if isinstance(a, dict) and isinstance(b, dict) and set(a) == set(b):
        return all(_close(a[k], b[k]) for k in a)
    fa, fb = _num(a), _num(b)
    if fa is not None and fb is not None:
        return abs(fa - fb) <= tol * max(1.0, abs(fa), abs(fb))
    return False


def _diff(cs, cp):
    if cs is None or cp is None:
        return ("missing_output", "serial=%s parallel=%s" % (cs is not None, cp is not None)) if cs != cp else None
    if len(cs) != len(cp):
        return ("tree_count", "%d vs %d" % (len(cs), len(cp)))
    for a, b in zip(cs, cp):
        if a["rooted"] != b["rooted"]:
            return ("rooting", "%s vs %s" % (a["rooted"], b["rooted"]))
        if set(a["nodes"]) != set(b["nodes"]):
            d = set(a["nodes"]) ^ set(b["nodes"])
            return ("splits", "splits in one only: %s" % sorted(d)[:4])
        for k in a["nodes"]:
            x, y = a["nodes"][k], b["nodes"][k]
            if sorted(map(str, x["label"])) != sorted(map(str, y["label"])):
                if not _close(sorted(x["label"], key=str), sorted(y["label"], key=str)):
                    return ("support_label", "split %s: %s vs %s" % (list(k), x["label"], y["label"]))
            if x["has_length"] != y["has_length"] or not _close(x["length"], y["length"]):
                return ("edge_length", "split %s: %s vs %s" % (list(k), x["length"], y["length"]))
            if not _close(_merge(x["ann"]), _merge(y["ann"])):
                return ("node_annotations", "split %s: %s vs %s" % (list(k), x["ann"], y["ann"]))
            if not _close(_merge(x["eann"]), _merge(y["eann"])):
                return ("edge_annotations", "split %s: %s vs %s" % (list(k), x["eann"], y["eann"]))
        if not _close(a["tree_ann"], b["tree_ann"]):
            return ("tree_annotations", "%s vs %s" % (a["tree_ann"], b["tree_ann"]))
        if not _close(a["weight"], b["weight"]):
            return ("tree_weight", "%s vs %s" % (a["weight"], b["weight"]))
    return None


def _merge(anns):
    """Annotation dicts of the (one or two) nodes that induce a split, order-free."""
    return sorted((sorted(a.items()) for a in anns), key=repr)


def make(name):
    return C06B(name)
