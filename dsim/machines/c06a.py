"""C06 machine A — TreeArray merge histories.

A pool of trees is distributed over 1-5 shards (TreeArray instances with
identical settings) by a seeded history of add/append/insert/add_trees/read
operations, merges between shards (update / extend / += / +, in any direction,
including empty shards) and queries at any time.  Reference model: for every
shard the list of pool-tree indices it must contain.  Oracle: each shard equals
a fresh TreeArray into which exactly those trees were added one at a time, with
no intermediate queries.
"""
import math

import dendropy

from ..engine import Machine, StopRun
from ..model import gen, rawtree

WEIGHTS = [None, 0.25, 0.5, 1, 2]


def _rel(a, b, tol=1e-9):
    if a == b:
        return True
    try:
        return abs(a - b) <= tol * max(1.0, abs(a), abs(b))
    except TypeError:
        return False


class C06A(Machine):
    name = "c06a"
    property_id = "C06"
    runs = {"quick": 2500, "thorough": 100000}
    batch = 50
    rule = ("seeded pool of trees, 1-5 shards with identical settings, 5-40 add/merge/query steps; distinct = (partition of "
            "the pool into shards, merge sequence) with >=2 non-empty shards merged or an empty shard merged")
    components = {
        "real": ["TreeArray (add_tree/append/insert/add_trees/read/update/extend/+=/+ and all summaries)",
                 "SplitDistribution", "Tree.encode_bipartitions", "newick reader (read op)"],
        "simulated": ["the operation history (which sub-collection receives which tree, merge order, interleaved queries)"],
    }
    assumptions = ["reference = the library itself used in the simplest way (fresh TreeArray, one add_tree per tree, no queries in between)",
                   "dyadic tree weights and edge lengths so that counts and sums are exact; other floats compared with rel. tol. 1e-9"]

    def __init__(self, name="c06a"):
        self.name = name

    # ------------------------------------------------------------------
    def gen(self, rng, tier):
        ntax = rng.randint(4, 7)
        labs = gen.labels(rng, ntax, "plain")
        is_rooted = rng.choice([True, False, None])
        node_ages = is_rooted is True and rng.random() < 0.35
        lengths = "dyadic" if (node_ages or rng.random() < 0.7) else rng.choice(["none", "mixed_none"])
        pool = []
        # tips that are not contemporaneous: a label -> age map handed to the collections (heterochronous samples)
        tip_ages = None
        if node_ages and rng.random() < 0.35:
            tip_ages = dict((l, rng.choice([0.0, 0.0, 0.125, 0.25])) for l in labs)
        for _ in range(rng.randint(2, 24 if tier == "thorough" else 12)):
            if node_ages:
                spec = gen.ultrametric_spec(rng, labs)
                if tip_ages:
                    stack_ = [spec]
                    while stack_:
                        s_ = stack_.pop()
                        if not s_[2]:
                            s_[1] = s_[1] - tip_ages[s_[0]]      # every tip edge is at least 0.25 long
                        stack_.extend(s_[2])
            else:
                spec = gen.tree_spec(rng, labs, rng.choice(["binary", "binary", "poly", "caterpillar", "balanced", "star"]), lengths)
            pool.append({"spec": spec, "weight": rng.choice(WEIGHTS)})
        nshards = rng.randint(1, 5)
        cfg = {
            "labels": labs, "is_rooted": is_rooted, "node_ages": node_ages,
            "use_tree_weights": rng.random() < 0.7,
            "ignore_edge_lengths": rng.random() < 0.15,
            "shard_rooting_given": [rng.random() < 0.5 for _ in range(nshards)],
            "tip_ages": tip_ages,
            # collectors created with the library's default settings: they take their settings from the first array they are updated from
            "virgin": [nshards > 1 and rng.random() < 0.25 for _ in range(nshards)],
        }
        steps = []
        adds = ["add_tree", "add_tree", "append", "insert", "add_trees", "read"] + (["refused"] if node_ages else [])
        merges = ["update", "update", "extend", "iadd", "add"]
        queries = ["len", "freqs", "consensus", "mcct", "msct", "scores", "topologies", "bitmask_set_freqs", "restore",
                   "summarize", "bipartition_freqs"]
        for _ in range(rng.randint(5, 90 if tier == "thorough" else 40)):
            r = rng.random()
            if r < 0.5:
                how = rng.choice(adds)
                st = {"op": "add", "how": how, "shard": rng.randrange(nshards), "tree": rng.randrange(len(pool)), "k": rng.randrange(1000)}
                if how == "add_trees":
                    st["trees"] = [rng.randrange(len(pool)) for _ in range(rng.randint(0, 3))]
                steps.append(st)
            elif r < 0.75 and nshards > 1:
                a = rng.randrange(nshards)
                b = rng.randrange(nshards)
                steps.append({"op": "merge", "how": rng.choice(merges), "dst": a, "src": b})
            else:
                steps.append({"op": "query", "what": rng.choice(queries), "shard": rng.randrange(nshards), "k": rng.randrange(1000),
                              "min_freq": rng.choice([0.5, 0.25, 0.75, 0.95, 0.1, 1.0])})
        return {"config": cfg, "initial": {"pool": pool, "nshards": nshards}, "steps": steps}

    # ------------------------------------------------------------------
    def _new_array(self, cfg, ns, rooting_given=True):
        return dendropy.TreeArray(
            taxon_namespace=ns,
            is_rooted_trees=cfg["is_rooted"] if rooting_given else None,
            ignore_edge_lengths=cfg["ignore_edge_lengths"],
            ignore_node_ages=not cfg["node_ages"],
            use_tree_weights=cfg["use_tree_weights"],
            taxon_label_age_map=cfg.get("tip_ages") or None)

    def _tree(self, cfg, ns, entry):
        t = gen.build_tree(dendropy, entry["spec"], ns, is_rooted=cfg["is_rooted"])
        t.weight = entry["weight"]
        return t

    def run(self, plan, rec):
        cfg = plan["config"]
        pool = plan["initial"]["pool"]
        self._pool = pool
        nshards = plan["initial"]["nshards"]
        ns = dendropy.TaxonNamespace(cfg["labels"])
        given = cfg["shard_rooting_given"]
        shards = [self._new_array(cfg, ns, given[i] if i < len(given) else True) for i in range(nshards)]
        virgin = list(cfg.get("virgin") or [False] * nshards) + [False] * nshards
        for i in range(nshards):
            if virgin[i]:
                shards[i] = dendropy.TreeArray(taxon_namespace=ns, taxon_label_age_map=cfg.get("tip_ages") or None)
        model = [[] for _ in range(nshards)]
        merged_nonempty = 0
        merged_empty = 0
        merge_log = []
        for i, st in enumerate(plan["steps"]):
            rec.step_index = i
            rec.steps += 1
            op = st["op"]
            if op == "add":
                k = st["shard"] % nshards
                if virgin[k]:
                    continue        # a collector only takes what it is updated from
                ta = shards[k]
                ti = st["tree"] % len(pool)
                how = st["how"]
                if how == "refused":
                    # fault: a tree the collection has to refuse (not ultrametric while node ages are collected); the
                    # collection must be as if the tree had never been offered
                    bad = gen.build_tree(dendropy, pool[ti]["spec"], ns, is_rooted=cfg["is_rooted"])
                    lf = [nd for nd in bad.leaf_node_iter()][0]
                    lf.edge.length = (lf.edge.length or 0) + 3.0
                    before = (len(ta), ta.split_distribution.total_trees_counted, ta.split_distribution.sum_of_tree_weights, ta.is_rooted_trees)
                    rec.fault("tree_refused_by_collection")
                    try:
                        ta.add_tree(bad)
                    except Exception:
                        after = (len(ta), ta.split_distribution.total_trees_counted, ta.split_distribution.sum_of_tree_weights, ta.is_rooted_trees)
                        if after != before:
                            rec.violation("REFUSED_BUT_CHANGED", {"op": "add_tree"},
                                          "a refused tree changed the collection: (len, trees counted, weight sum, rooting) %s -> %s" % (before, after))
                            raise StopRun()
                        rec.ev("add", "refused", k)
                        continue
                    rec.violation("MISSING_ERROR", {"op": "add_tree_non_ultrametric"}, "a non-ultrametric tree was accepted while node ages are collected")
                    raise StopRun()
                try:
                    if how in ("add_tree", "append"):
                        getattr(ta, how)(self._tree(cfg, ns, pool[ti]))
                        model[k].append(ti)
                    elif how == "insert":
                        idx = st["k"] % (len(model[k]) + 1)
                        ta.insert(idx, self._tree(cfg, ns, pool[ti]))
                        model[k].insert(idx, ti)
                    elif how == "add_trees":
                        lst = [x % len(pool) for x in st.get("trees", [])]
                        ta.add_trees([self._tree(cfg, ns, pool[x]) for x in lst])
                        model[k].extend(lst)
                    elif how == "read":
                        text = gen.spec_to_newick(pool[ti]["spec"])
                        w = pool[ti]["weight"]
                        if w is not None:
                            text = "[&W %r] %s" % (w, text)
                        kw = {}
                        if cfg["is_rooted"] is True:
                            kw["rooting"] = "force-rooted"
                        elif cfg["is_rooted"] is False:
                            kw["rooting"] = "force-unrooted"
                        ta.read(data=text, schema="newick", store_tree_weights=True, **kw)
                        model[k].append(ti)
                except Exception as e:
                    rec.violation("ADD_FAILED", {"op": how, "exception": type(e).__name__},
                                  "%s of a compatible tree raised %s: %s" % (how, type(e).__name__, e))
                    raise StopRun()
                rec.ev("add", how, k, ti)
            elif op == "merge":
                a = st["dst"] % nshards
                b = st["src"] % nshards
                how = st["how"]
                if virgin[b] or (virgin[a] and how != "update"):
                    continue        # only update() is documented to let an empty array adopt the settings of its source
                if len(model[a]) + len(model[b]) > 64:
                    rec.ev("merge_skipped_size_cap")
                    continue        # merges double the content; keep collections small
                src_empty = len(model[b]) == 0
                dst_empty = len(model[a]) == 0
                try:
                    if how == "update":
                        shards[a].update(shards[b])
                    elif how == "extend":
                        shards[a].extend(shards[b])
                    elif how == "iadd":
                        shards[a] += shards[b]
                    elif how == "add":
                        shards[a] = shards[a] + shards[b]
                except Exception as e:
                    rec.violation("MERGE_REJECTED", {"op": how, "exception": type(e).__name__,
                                                     "src_empty": src_empty, "dst_empty": dst_empty, "self_merge": a == b},
                                  "%s of compatible sub-collections raised %s: %s (dst holds %d trees, src %d)" % (
                                      how, type(e).__name__, e, len(model[a]), len(model[b])))
                    raise StopRun()
                model[a] = model[a] + list(model[b])
                if virgin[a]:
                    virgin[a] = False
                    rec.probe("settings_adopted_by_empty_collector")
                if src_empty or dst_empty:
                    merged_empty += 1
                    rec.probe("merge_with_empty_shard")
                else:
                    merged_nonempty += 1
                merge_log.append((how, a, b))
                rec.ev("merge", how, a, b)
                # after any merge every per-tree query still works
                self._check_shard(rec, cfg, ns, pool, shards[a], model[a], {"what": "restore", "k": 0, "min_freq": 0.5}, after="merge:" + how)
                self._check_shard(rec, cfg, ns, pool, shards[a], model[a], {"what": "scores", "k": 0, "min_freq": 0.5}, after="merge:" + how)
            else:
                k = st["shard"] % nshards
                self._check_shard(rec, cfg, ns, pool, shards[k], model[k], st, after="query")
                rec.ev("query", st["what"], k)
        # final: every shard against its reference, all queries
        for k in range(nshards):
            for what in ("len", "freqs", "consensus", "scores", "restore", "mcct", "msct"):
                self._check_shard(rec, cfg, ns, pool, shards[k], model[k], {"what": what, "k": k, "min_freq": 0.5}, after="final")
        if merged_nonempty or merged_empty:
            rec.nontrivial(([sorted(m) for m in model], merge_log))

    # ------------------------------------------------------------------
    def _reference(self, cfg, ns, pool, members):
        ref = self._new_array(cfg, ns, True)
        for ti in members:
            ref.add_tree(self._tree(cfg, ns, pool[ti]))
        return ref

    def _check_shard(self, rec, cfg, ns, pool, ta, members, st, after):
        what = st["what"]
        ref = self._reference(cfg, ns, pool, members)
        base = {"query": what, "after": after.split(":")[0] if after.startswith("merge") else after,
                "merge_op": after.split(":")[1] if after.startswith("merge:") else None}
        try:
            diff = self._compare(cfg, ta, ref, st, members)
        except StopRun:
            raise
        except Exception as e:
            import traceback
            tb = traceback.extract_tb(e.__traceback__)
            fn = [f.name for f in tb if "dendropy" in f.filename]
            rec.violation("QUERY_FAILED", dict(base, exception=type(e).__name__, function=fn[-1] if fn else "?"),
                          "query '%s' (%s) raised %s: %s on a collection holding trees %s" % (what, after, type(e).__name__, e, members))
            raise StopRun()
        if diff:
            rec.violation("SUMMARY_DIFFERS", dict(base, what=diff[0]),
                          "query '%s' (%s): %s; collection holds pool trees %s" % (what, after, diff[1], members))
            raise StopRun()

    def _compare(self, cfg, ta, ref, st, members):
        what = st["what"]
        if what == "len":
            if len(ta) != len(ref):
                return ("len", "len %d vs reference %d" % (len(ta), len(ref)))
            return None
        sd, rd = ta.split_distribution, ref.split_distribution
        if what == "freqs":
            a = dict((k, v) for k, v in sd.split_counts.items() if v)
            b = dict((k, v) for k, v in rd.split_counts.items() if v)
            if a != b:
                return ("split_counts", "split counts differ: %s vs %s" % (sorted(a.items())[:6], sorted(b.items())[:6]))
            if sd.total_trees_counted != rd.total_trees_counted:
                return ("total_trees_counted", "%s vs %s" % (sd.total_trees_counted, rd.total_trees_counted))
            if not _rel(sd.sum_of_tree_weights, rd.sum_of_tree_weights):
                return ("sum_of_tree_weights", "%s vs %s" % (sd.sum_of_tree_weights, rd.sum_of_tree_weights))
            fa, fb = sd.split_frequencies, rd.split_frequencies
            for k in set(fa) | set(fb):
                if not _rel(fa.get(k, 0.0), fb.get(k, 0.0)):
                    return ("split_frequencies", "frequency of split %s: %s vs %s" % (k, fa.get(k), fb.get(k)))
            # the tables hold the same splits (a split without values has no entry, however the collection was assembled)
            for tab in ("split_edge_lengths", "split_node_ages"):
                ka = set(k for k in getattr(sd, tab))
                kb = set(k for k in getattr(rd, tab))
                if ka != kb:
                    return (tab + "_keys", "%s has entries for %d splits, the collection built tree by tree for %d" % (tab, len(ka), len(kb)))
            for k in b:
                if sorted(sd.split_edge_lengths.get(k, []), key=repr) != sorted(rd.split_edge_lengths.get(k, []), key=repr):
                    return ("split_edge_lengths", "edge lengths of split %s: %s vs %s" % (
                        k, sorted(sd.split_edge_lengths.get(k, []), key=repr), sorted(rd.split_edge_lengths.get(k, []), key=repr)))
                if sorted(sd.split_node_ages.get(k, []), key=repr) != sorted(rd.split_node_ages.get(k, []), key=repr):
                    return ("split_node_ages", "node ages of split %s differ" % k)
            return None
        if not members:
            return None   # summaries of an empty collection are not defined by the statement
        if what == "consensus":
            ca = ta.consensus_tree(min_freq=st["min_freq"])
            cb = ref.consensus_tree(min_freq=st["min_freq"])
            return _tree_diff(ca, cb, cfg)
        if what in ("mcct", "msct", "scores"):
            out = None
            for fn_scores, fn_tree, nm in (("calculate_log_product_of_split_supports", "maximum_product_of_split_support_tree", "mcct"),
                                           ("calculate_sum_of_split_supports", "maximum_sum_of_split_support_tree", "msct")):
                if what != "scores" and what != nm:
                    continue
                sa, ia = getattr(ta, fn_scores)()
                sb, ib = getattr(ref, fn_scores)()
                if len(sa) != len(sb) or any(not _rel(x, y) for x, y in zip(sorted(sa), sorted(sb))):
                    return (nm + "_scores", "per-tree scores differ as multisets: %s vs %s" % (sorted(sa), sorted(sb)))
                if not _rel(max(sa), max(sb)):
                    return (nm + "_max_score", "%s vs %s" % (max(sa), max(sb)))
                if what != "scores":
                    # unique maximiser?  judged on the reference: all maximal trees share one split set
                    mx = max(sb)
                    top = set(frozenset(ref._tree_split_bitmasks[i]) for i, s in enumerate(sb) if _rel(s, mx))
                    ta_tree = getattr(ta, fn_tree)()
                    if len(top) == 1:
                        tb_tree = getattr(ref, fn_tree)()
                        d = _tree_diff(ta_tree, tb_tree, cfg)
                        if d:
                            return (nm + "_" + d[0], d[1])
            return out
        if what == "topologies":
            a = ta.topologies()
            b = ref.topologies()
            ka = sorted((_splitset(t, cfg), round(getattr(t, "frequency", 0), 9)) for t in a)
            kb = sorted((_splitset(t, cfg), round(getattr(t, "frequency", 0), 9)) for t in b)
            if ka != kb:
                return ("topologies", "topologies()/frequencies differ: %d vs %d entries" % (len(ka), len(kb)))
            return None
        if what == "bitmask_set_freqs":
            a = ta.split_bitmask_set_frequencies()
            b = ref.split_bitmask_set_frequencies()
            if set(a) != set(b) or any(not _rel(a[k], b[k]) for k in a):
                return ("split_bitmask_set_frequencies", "differ: %s vs %s" % (sorted(a.values()), sorted(b.values())))
            return None
        if what == "bipartition_freqs":
            a = ta.bipartition_encoding_frequencies()
            b = ref.bipartition_encoding_frequencies()
            ka = sorted((sorted(x.split_bitmask for x in k), round(v, 9)) for k, v in a.items())
            kb = sorted((sorted(x.split_bitmask for x in k), round(v, 9)) for k, v in b.items())
            if ka != kb:
                return ("bipartition_encoding_frequencies", "differ")
            return None
        if what == "restore":
            if len(ta) != len(ref):
                return ("len", "len %d vs reference %d" % (len(ta), len(ref)))
            ka = sorted(_splitset(ta.restore_tree(index=i), cfg) for i in range(len(ta)))
            kb = sorted(_splitset(ref.restore_tree(index=i), cfg) for i in range(len(ref)))
            if ka != kb:
                return ("restored_trees", "multiset of restore_tree(i) split sets differs from the reference")
            # the per-tree rows: iteration yields one (splits, lengths) pair per tree, indexing returns the same pairs,
            # and as a multiset they are the rows of the collection built tree by tree
            def rows(x):
                it = [(tuple(sp), tuple(ln)) for sp, ln in x]
                ix = [(tuple(sp), tuple(ln)) for sp, ln in (x.get_split_bitmask_and_edge_tuple(i) for i in range(len(x)))]
                return it, ix
            it_a, ix_a = rows(ta)
            it_b, ix_b = rows(ref)
            if len(it_a) != len(ta):
                return ("per_tree_rows", "iteration yields %d trees, len() is %d" % (len(it_a), len(ta)))
            if it_a != ix_a:
                return ("per_tree_rows", "iteration and get_split_bitmask_and_edge_tuple(i) disagree")
            if any(len(sp) != len(ln) for sp, ln in it_a) and not cfg["ignore_edge_lengths"]:
                return ("per_tree_rows", "a tree's split and edge-length rows differ in length")
            if sorted(it_a, key=repr) != sorted(it_b, key=repr):
                return ("per_tree_rows", "multiset of per-tree (splits, edge lengths) rows differs from the reference")
            return None
        if what == "summarize":
            ti = members[st["k"] % len(members)]
            t1 = self._tree(cfg, ta.taxon_namespace, self._pool[ti])
            t2 = self._tree(cfg, ta.taxon_namespace, self._pool[ti])
            kw = {}
            if st["k"] % 3 == 1:
                kw["set_edge_lengths"] = "mean-length" if not cfg["ignore_edge_lengths"] else "support"
            elif st["k"] % 3 == 2:
                kw["support_as_percentages"] = True
            ta.summarize_splits_on_tree(t1, **kw)
            ref.summarize_splits_on_tree(t2, **kw)
            return _tree_diff(t1, t2, cfg, all_annotations=True)
        return None


def _splitset(tree, cfg):
    rooted = bool(tree.is_rooted)
    sl, _ = rawtree.split_lengths(tree, rooted=rooted)
    return sorted(tuple(sorted(s)) for s in sl)


def _ann_close(a, b):
    if a == b:
        return True
    if isinstance(a, (list, tuple)) and isinstance(b, (list, tuple)) and len(a) == len(b):
        return all(_ann_close(x, y) for x, y in zip(a, b))
    fa, fb = _f(a), _f(b)
    if fa is not None and fb is not None:
        return _rel(fa, fb)
    return False


def _tree_diff(ta, tb, cfg, all_annotations=False):
    if ta.is_rooted != tb.is_rooted:
        return ("rooting", "rooting %s vs %s" % (ta.is_rooted, tb.is_rooted))
    rooted = bool(ta.is_rooted)
    sa, _ = rawtree.split_lengths(ta, rooted=rooted)
    sb, _ = rawtree.split_lengths(tb, rooted=rooted)
    if set(sa) != set(sb):
        return ("splits", "split sets differ: only in one: %s" % sorted(tuple(sorted(x)) for x in (set(sa) ^ set(sb)))[:4])
    for k in sa:
        if not _rel(sa[k], sb[k]):
            return ("edge_length", "length of split %s: %s vs %s" % (sorted(k), sa[k], sb[k]))
    # supports by split
    extra_a, extra_b = {}, {}

    def supports(t, extra=None):
        extra = extra if extra is not None else {}
        out = {}
        nodes, below = rawtree.clade_sets(t, key=lambda x: x.label)
        allk = below[id(nodes[0])]
        lo = min(allk) if allk else None
        for nd in nodes:
            c = below[id(nd)]
            if not rooted and lo in c:
                c = allk - c
            sup = nd.annotations.get_value("support", None)
            out.setdefault(c, []).append((nd.label, sup))
            if all_annotations:
                extra.setdefault(c, []).append((sorted((a.name, a.value) for a in nd.annotations),
                                                sorted((a.name, a.value) for a in nd.edge.annotations)))
        return out
    pa, pb = supports(ta, extra_a), supports(tb, extra_b)
    for k in pa:
        xa = sorted(pa[k], key=repr)
        xb = sorted(pb.get(k, []), key=repr)
        if len(xa) != len(xb):
            return ("support", "support entries for split %s: %s vs %s" % (sorted(k), xa, xb))
        for (la, va), (lb, vb) in zip(xa, xb):
            fa, fb = _f(va), _f(vb)
            if (fa is None) != (fb is None) or (fa is not None and not _rel(fa, fb)) or str(la) != str(lb):
                return ("support", "support of split %s: %s vs %s" % (sorted(k), xa, xb))
    if all_annotations:
        for k in extra_a:
            xa = sorted(extra_a[k], key=repr)
            xb = sorted(extra_b.get(k, []), key=repr)
            if len(xa) != len(xb):
                return ("annotations", "annotation sets of split %s differ in number" % sorted(k))
            for (na, ea), (nb, eb) in zip(xa, xb):
                for la, lb in ((na, nb), (ea, eb)):
                    if [x[0] for x in la] != [x[0] for x in lb] or not all(_ann_close(x[1], y[1]) for x, y in zip(la, lb)):
                        return ("annotations", "summary annotations of split %s: %s vs %s" % (sorted(k), la, lb))
    return None


def _f(x):
    try:
        return float(x)
    except (TypeError, ValueError):
        return None


def make(name):
    return C06A(name)
