"""C10 — taxon namespaces keep a stable one-to-one taxon/bit map and exact
label lookups, under every history of operations on a namespace and its copies.

Reference model: per namespace the ordered list of member ids, the bit given to
each member at admission (monotone counter), is_mutable, is_case_sensitive;
labels are global per taxon object (copies that share Taxon objects see
relabelling).  After every step the complete state of every live namespace is
compared with the model and a seeded batch of queries is checked.
"""
import copy as _copy
import re

import dendropy
from dendropy.utility import error as dperror

from ..engine import Machine, StopRun

LABELS = ["a", "A", "b", "B", "ab", "Ab", "AB", "c", "x1", "X1", "zeta", "Zeta", "q"]
_tok = re.compile(r"[A-Za-z0-9]+")


class NSModel(object):
    def __init__(self, case_sensitive, mutable=True):
        self.members = []       # uids in order
        self.bit = {}           # uid -> bit index
        self.counter = 0
        self.mutable = mutable
        self.cs = case_sensitive

    def clone(self, uid_map=None):
        m = NSModel(self.cs, self.mutable)
        if uid_map is None:
            m.members = list(self.members)
            m.bit = dict(self.bit)
        else:
            m.members = [uid_map[u] for u in self.members]
            m.bit = dict((uid_map[u], b) for u, b in self.bit.items())
        m.counter = self.counter
        return m

    def admit(self, uid):
        self.members.append(uid)
        self.bit[uid] = self.counter
        self.counter += 1

    def drop(self, uid):
        self.members.remove(uid)
        del self.bit[uid]


class C10(Machine):
    name = "c10"
    property_id = "C10"
    runs = {"quick": 40000, "thorough": 1500000}
    batch = 250
    rule = ("seeded histories (5-60 steps) of add/new/require/remove/discard/del/sort/reverse/clear/relabel/mutability/copy "
            "operations on a namespace and its copies; distinct = operation-name sequences containing a removal or reordering "
            "followed by a bitmask query step")
    components = {"real": ["TaxonNamespace", "Taxon", "nexusprocessing.bitmask_as_newick_string", "bitprocessing"],
                  "simulated": ["the operation history, including inadmissible operations (remove a non-member, add to an immutable namespace) as faults"]}
    assumptions = ["labels are plain alphanumeric strings (case variants and duplicates included) so that textual renderings parse unambiguously",
                   "for the empty and the full member set a rendering is accepted if it names every member exactly once"]

    def __init__(self, name="c10"):
        self.name = name

    def gen(self, rng, tier):
        n0 = rng.randint(0, 6)
        cfg = {"case_sensitive": rng.random() < 0.5, "initial_labels": [rng.choice(LABELS) for _ in range(n0)]}
        ops = ["add_new", "add_new", "add_member", "add_known", "new_taxon", "new_taxa", "add_taxa", "require", "require",
               "remove", "remove", "remove_nonmember", "remove_label", "discard_label", "delitem", "sort", "reverse", "clear",
               "relabel", "relabel", "toggle_mutable", "read_translate", "read_csv_unknown", "copy", "deepcopy", "construct", "clone0", "clone1", "clone2", "query", "query"]
        steps = []
        for _ in range(rng.randint(5, 150 if tier == "thorough" else 60)):
            op = rng.choice(ops)
            steps.append({"op": op, "ns": rng.randrange(8), "i": rng.randrange(1000), "j": rng.randrange(1000),
                          "label": rng.choice(LABELS), "labels": [rng.choice(LABELS) for _ in range(rng.randint(0, 3))],
                          "cs": rng.choice([None, None, True, False]), "first": rng.random() < 0.5,
                          "rev": rng.random() < 0.5, "key": rng.choice(["default", "lower", "len"]),
                          "mask": rng.getrandbits(16)})
        return {"config": cfg, "initial": {}, "steps": steps}

    # ------------------------------------------------------------------
    def run(self, plan, rec):
        cfg = plan["config"]
        self.taxa = {}       # uid -> Taxon
        self.uid_of = {}     # id(Taxon) -> uid
        self.labels = {}     # uid -> label
        self.next_uid = 0
        ns = dendropy.TaxonNamespace(is_case_sensitive=cfg["case_sensitive"])
        model = NSModel(cfg["case_sensitive"])
        self.spaces = [(ns, model)]
        for lab in cfg["initial_labels"]:
            t = ns.new_taxon(label=lab)
            model.admit(self._register(t, lab))
        self._check_all(rec, "init", None)
        seen_reorder = False
        nontrivial = False
        names = []
        for i, st in enumerate(plan["steps"]):
            rec.step_index = i
            rec.steps += 1
            k = st["ns"] % len(self.spaces)
            ns, model = self.spaces[k]
            op = st["op"]
            try:
                self._apply(rec, op, st, ns, model, k)
            except StopRun:
                raise
            except Exception as e:
                import traceback
                fn = [f.name for f in traceback.extract_tb(e.__traceback__) if "dendropy" in f.filename]
                rec.violation("OP_FAILED", {"op": op, "exception": type(e).__name__, "function": fn[-1] if fn else "harness"},
                              "%s raised %s: %s (step %s)" % (op, type(e).__name__, e, st))
                raise StopRun()
            rec.ev("op", op, k)
            names.append(op)
            self._check_all(rec, op, st)
            if op in ("remove", "remove_label", "discard_label", "delitem", "sort", "reverse", "clear"):
                seen_reorder = True
            if op == "query" and seen_reorder:
                nontrivial = True
        if nontrivial:
            rec.nontrivial(names)

    def _register(self, taxon, label):
        uid = self.next_uid
        self.next_uid += 1
        self.taxa[uid] = taxon
        self.uid_of[id(taxon)] = uid
        self.labels[uid] = label
        return uid

    def _match(self, model, label, cs):
        rule = model.cs if cs is None else cs
        if rule:
            return [u for u in model.members if self.labels[u] == label]
        return [u for u in model.members if self.labels[u].lower() == label.lower()]

    # ------------------------------------------------------------------
    def _expect_raise(self, rec, op, exc_types, fn):
        try:
            fn()
        except exc_types:
            rec.fault("inadmissible_" + op)
            return
        rec.violation("MISSING_ERROR", {"op": op}, "%s with an inadmissible argument did not raise %s" % (
            op, "/".join(t.__name__ for t in exc_types)))
        raise StopRun()

    def _apply(self, rec, op, st, ns, model, k):
        label = st["label"]
        if op == "add_new":
            t = dendropy.Taxon(label=label)
            if not model.mutable:
                self._expect_raise(rec, op, (dperror.ImmutableTaxonNamespaceError,), lambda: ns.add_taxon(t))
                return
            ns.add_taxon(t)
            model.admit(self._register(t, label))
        elif op == "add_member":
            if not model.members:
                return
            u = model.members[st["i"] % len(model.members)]
            ns.add_taxon(self.taxa[u])       # documented no-op, also on an immutable namespace
        elif op == "add_known":
            # a taxon object known to the harness that is not a member here (removed earlier, or member of another namespace)
            cands = [u for u in sorted(self.taxa) if u not in model.bit]
            if not cands:
                return
            u = cands[st["i"] % len(cands)]
            if not model.mutable:
                self._expect_raise(rec, op, (dperror.ImmutableTaxonNamespaceError,), lambda: ns.add_taxon(self.taxa[u]))
                return
            ns.add_taxon(self.taxa[u])
            model.admit(u)
        elif op == "new_taxon":
            if not model.mutable:
                self._expect_raise(rec, op, (dperror.ImmutableTaxonNamespaceError,), lambda: ns.new_taxon(label=label))
                return
            t = ns.new_taxon(label=label)
            model.admit(self._register(t, label))
        elif op == "new_taxa":
            if not model.mutable:
                self._expect_raise(rec, op, (dperror.ImmutableTaxonNamespaceError,), lambda: ns.new_taxa(st["labels"]))
                return
            ts = ns.new_taxa(st["labels"])
            if len(ts) != len(st["labels"]):
                rec.violation("WRONG_RESULT", {"op": op}, "new_taxa returned %d taxa for %d labels" % (len(ts), len(st["labels"])))
                raise StopRun()
            for t, lab in zip(ts, st["labels"]):
                model.admit(self._register(t, lab))
        elif op == "add_taxa":
            new = [dendropy.Taxon(label=l) for l in st["labels"]]
            mix = list(new)
            if model.members:
                mix.insert(0, self.taxa[model.members[st["i"] % len(model.members)]])
            if new and st["first"]:
                mix.append(new[st["j"] % len(new)])      # the same new taxon listed twice in one call: admitted once
            if not model.mutable and new:
                self._expect_raise(rec, op, (dperror.ImmutableTaxonNamespaceError,), lambda: ns.add_taxa(mix))
                return
            ns.add_taxa(mix)
            for t, lab in zip(new, st["labels"]):
                model.admit(self._register(t, lab))
        elif op == "require":
            m = self._match(model, label, st["cs"])
            kw = {} if st["cs"] is None else {"is_case_sensitive": st["cs"]}
            if not m and not model.mutable:
                self._expect_raise(rec, op, (dperror.ImmutableTaxonNamespaceError,), lambda: ns.require_taxon(label=label, **kw))
                return
            t = ns.require_taxon(label=label, **kw)
            if m:
                if t is not self.taxa[m[0]]:
                    rec.violation("WRONG_RESULT", {"op": op, "what": "not_first_match"},
                                  "require_taxon(%r, cs=%s) did not return the first matching member" % (label, st["cs"]))
                    raise StopRun()
            else:
                if id(t) in self.uid_of:
                    rec.violation("WRONG_RESULT", {"op": op, "what": "no_new_member"}, "require_taxon without a match returned an existing taxon")
                    raise StopRun()
                model.admit(self._register(t, label))
        elif op == "remove":
            if not model.members:
                return
            u = model.members[st["i"] % len(model.members)]
            ns.remove_taxon(self.taxa[u])
            model.drop(u)
        elif op == "remove_nonmember":
            t = dendropy.Taxon(label=label)
            self._expect_raise(rec, op, (ValueError,), lambda: ns.remove_taxon(t))
        elif op in ("remove_label", "discard_label"):
            m = self._match(model, label, st["cs"])
            kw = {"first_match_only": st["first"]}
            if st["cs"] is not None:
                kw["is_case_sensitive"] = st["cs"]
            fn = ns.remove_taxon_label if op == "remove_label" else ns.discard_taxon_label
            if not m and op == "remove_label":
                self._expect_raise(rec, op, (LookupError,), lambda: fn(label, **kw))
                return
            fn(label, **kw)
            for u in (m[:1] if st["first"] else m):
                model.drop(u)
        elif op == "delitem":
            if not model.members:
                return
            idx = st["i"] % len(model.members)
            del ns[idx]
            model.drop(model.members[idx])
        elif op == "sort":
            if st["key"] == "default":
                ns.sort(reverse=st["rev"])
                key = lambda u: self.labels[u]
            elif st["key"] == "lower":
                ns.sort(key=lambda t: t.label.lower(), reverse=st["rev"])
                key = lambda u: self.labels[u].lower()
            else:
                ns.sort(key=lambda t: len(t.label), reverse=st["rev"])
                key = lambda u: len(self.labels[u])
            model.members = sorted(model.members, key=key, reverse=st["rev"])   # list.sort is stable, so is sorted()
        elif op == "reverse":
            ns.reverse()
            model.members.reverse()
        elif op == "clear":
            ns.clear()
            model.members = []
            model.bit = {}
        elif op == "relabel":
            if not model.members:
                return
            u = model.members[st["i"] % len(model.members)]
            self.taxa[u].label = label
            self.labels[u] = label
        elif op == "toggle_mutable":
            ns.is_mutable = not ns.is_mutable
            model.mutable = not model.mutable
        elif op == "read_csv_unknown":
            # fault: a distance table that names a taxon the (populated) namespace does not hold is refused; the namespace
            # must be exactly as it was, including its mutability
            if not model.members:
                return
            import io
            from dendropy.calculate.phylogeneticdistance import PhylogeneticDistanceMatrix
            labs = []
            for u in model.members[:3]:
                if self.labels[u] not in labs:
                    labs.append(self.labels[u])
            labs.append("zz unknown %d" % st["i"])
            text = "," + ",".join(labs) + "\n" + "".join("%s,%s\n" % (a, ",".join("0" if a == b else "1" for b in labs)) for a in labs)
            try:
                PhylogeneticDistanceMatrix.from_csv(io.StringIO(text), taxon_namespace=ns, delimiter=",")
            except Exception:
                rec.fault("inadmissible_" + op)
                return
            rec.violation("MISSING_ERROR", {"op": op}, "from_csv accepted a label that the populated namespace does not hold")
            raise StopRun()
        elif op == "read_translate":
            # a reader filling the namespace: a TREES block with TRANSLATE and no TAXA block names two labels nobody holds
            self.nread = getattr(self, "nread", 0) + 1
            new = ["read%da" % self.nread, "read%db" % self.nread]
            doc = "#NEXUS\nBEGIN TREES;\n  TRANSLATE 1 %s, 2 %s;\n  TREE t = (1,2);\nEND;\n" % tuple(new)
            kw = {"case_sensitive_taxon_labels": True} if model.cs else {}
            if not model.mutable:
                self._expect_raise(rec, op, (dperror.DataParseError, dperror.ImmutableTaxonNamespaceError),
                                   lambda: dendropy.Tree.get(data=doc, schema="nexus", taxon_namespace=ns, **kw))
                return
            dendropy.Tree.get(data=doc, schema="nexus", taxon_namespace=ns, **kw)
            for lab in new:
                m = [t for t in ns if t.label == lab and id(t) not in self.uid_of]
                if len(m) != 1:
                    rec.violation("WRONG_RESULT", {"op": op, "what": "members_created"},
                                  "reading a TRANSLATE label nobody holds created %d members for it" % len(m))
                    raise StopRun()
                model.admit(self._register(m[0], lab))
        elif op in ("copy", "construct", "clone0"):
            if len(self.spaces) >= 4:
                return
            if op == "copy":
                c = _copy.copy(ns)
            elif op == "construct":
                c = dendropy.TaxonNamespace(ns)
            else:
                c = ns.clone(0)
            self._adopt_copy(rec, op, ns, model, c, shared=True)
        elif op in ("deepcopy", "clone2"):
            if len(self.spaces) >= 4:
                return
            c = _copy.deepcopy(ns) if op == "deepcopy" else ns.clone(2)
            self._adopt_copy(rec, op, ns, model, c, shared=False)
        elif op == "clone1":
            c = ns.clone(1)
            if c is not ns:
                if len(self.spaces) >= 4:
                    return
                self._adopt_copy(rec, op, ns, model, c, shared=all(a is b for a, b in zip(c, ns)))
        elif op == "query":
            self._queries(rec, st, ns, model)

    def _adopt_copy(self, rec, op, ns, model, c, shared):
        if c is ns:
            return
        if len(c) != len(model.members):
            rec.violation("COPY_DIFFERS", {"op": op, "what": "size"}, "copy has %d members, original %d" % (len(c), len(model.members)))
            raise StopRun()
        if shared:
            for t, u in zip(c, model.members):
                if t is not self.taxa[u]:
                    rec.violation("COPY_DIFFERS", {"op": op, "what": "taxa_not_shared"},
                                  "%s is documented to hold the same Taxon objects in the same order" % op)
                    raise StopRun()
            self.spaces.append((c, model.clone()))
        else:
            uid_map = {}
            for t, u in zip(c, model.members):
                if id(t) in self.uid_of:
                    rec.violation("COPY_DIFFERS", {"op": op, "what": "taxon_shared_by_deep_copy"}, "deep copy shares a Taxon object with its source")
                    raise StopRun()
                if t.label != self.labels[u]:
                    rec.violation("COPY_DIFFERS", {"op": op, "what": "label"}, "deep copy label %r vs %r" % (t.label, self.labels[u]))
                    raise StopRun()
                uid_map[u] = self._register(t, self.labels[u])
            self.spaces.append((c, model.clone(uid_map)))
        rec.probe("copy_taken")

    # ------------------------------------------------------------------
    def _check_all(self, rec, op, st):
        for k, (ns, model) in enumerate(self.spaces):
            d = self._state_diff(ns, model)
            if d:
                rec.violation("STATE_DIFFERS", {"after": op, "what": d[0], "own": self.spaces[k][0] is ns and st is not None and (st["ns"] % len(self.spaces)) == k},
                              "after %s: namespace #%d: %s" % (op, k, d[1]))
                raise StopRun()

    def _state_diff(self, ns, model):
        real = list(ns)
        if len(real) != len(model.members) or any(t is not self.taxa[u] for t, u in zip(real, model.members)):
            return ("members", "members/order differ: real %s vs model %s" % (
                [t.label for t in real], [self.labels[u] for u in model.members]))
        if len(ns) != len(model.members):
            return ("len", "len() %d vs %d" % (len(ns), len(model.members)))
        if ns.labels() != [self.labels[u] for u in model.members]:
            return ("labels", "labels() %s vs %s" % (ns.labels(), [self.labels[u] for u in model.members]))
        if bool(ns.is_mutable) != model.mutable:
            return ("is_mutable", "is_mutable %s vs %s" % (ns.is_mutable, model.mutable))
        seen = {}
        for u in model.members:
            t = self.taxa[u]
            if t not in ns:
                return ("contains", "member %r not 'in' namespace" % self.labels[u])
            bm = ns.taxon_bitmask(t)
            if bm != (1 << model.bit[u]):
                return ("bit_changed", "bitmask of member %r is %s, was assigned %s at admission" % (self.labels[u], bin(bm), bin(1 << model.bit[u])))
            if ns.accession_index(t) != model.bit[u]:
                return ("accession_index", "accession index of %r is %s, expected %s" % (self.labels[u], ns.accession_index(t), model.bit[u]))
            if bm in seen:
                return ("bit_shared", "members %r and %r share bit %s" % (self.labels[u], self.labels[seen[bm]], bin(bm)))
            seen[bm] = u
        for u, t in self.taxa.items():
            if u not in model.bit and t in ns:
                return ("contains_nonmember", "non-member %r reported 'in' namespace" % self.labels[u])
        return None

    def _queries(self, rec, st, ns, model):
        def bad(what, msg):
            rec.violation("QUERY_WRONG", {"query": what}, msg)
            raise StopRun()
        members = model.members
        # 1. subset -> bitmask -> subset
        sub = [u for i, u in enumerate(members) if (st["mask"] >> i) & 1]
        want = 0
        for u in sub:
            want |= 1 << model.bit[u]
        got = ns.taxa_bitmask(taxa=[self.taxa[u] for u in sub])
        if got != want:
            bad("taxa_bitmask(taxa)", "taxa_bitmask of %s = %s, expected %s" % ([self.labels[u] for u in sub], bin(got), bin(want)))
        back = ns.bitmask_taxa_list(want)
        if sorted(self.uid_of.get(id(t), -1) for t in back) != sorted(sub) or len(back) != len(sub):
            bad("bitmask_taxa_list", "bitmask_taxa_list(%s) = %s, expected %s" % (bin(want), [t.label for t in back], [self.labels[u] for u in sub]))
        # 2. renderings
        for fn in ("bitmask_as_newick_string", "split_as_newick_string"):
            s = getattr(ns, fn)(want)
            groups = _parse_groups(s)
            inl = sorted(self.labels[u] for u in sub)
            outl = sorted(self.labels[u] for u in members if u not in sub)
            if groups is None:
                bad(fn, "%s(%s) = %r cannot be parsed" % (fn, bin(want), s))
            if not sub or len(sub) == len(members):
                if sorted(sum(groups, [])) != sorted(inl + outl):
                    bad(fn, "%s(%s) = %r does not name every member exactly once" % (fn, bin(want), s))
            else:
                if len(groups) != 2 or sorted(groups[0]) != inl or sorted(groups[1]) != outl:
                    bad(fn, "%s for members %s (bits %s) rendered %r: first group should name exactly %s and the second exactly %s" % (
                        fn, inl, bin(want), s, inl, outl))
        bs = ns.bitmask_as_bitstring(want)
        if not re.fullmatch(r"[01]*", bs) or (int(bs, 2) if bs else 0) != want:
            bad("bitmask_as_bitstring", "bitstring %r does not encode %s" % (bs, bin(want)))
        alltax = 0
        for u in members:
            alltax |= 1 << model.bit[u]
        if ns.all_taxa_bitmask() & alltax != alltax:
            bad("all_taxa_bitmask", "all_taxa_bitmask %s does not cover the members' bits %s" % (bin(ns.all_taxa_bitmask()), bin(alltax)))
        # 3. label lookups
        for cs in (None, True, False):
            kw = {} if cs is None else {"is_case_sensitive": cs}
            label = st["label"]
            m = self._match(model, label, cs)
            r = ns.findall(label, **kw)
            if [self.uid_of.get(id(t)) for t in r] != m:
                bad("findall", "findall(%r, cs=%s) = %s, expected members %s in membership order" % (label, cs, [t.label for t in r], [self.labels[u] for u in m]))
            r = ns.get_taxon(label, **kw)
            if (r is None) != (not m) or (m and r is not self.taxa[m[0]]):
                bad("get_taxon", "get_taxon(%r, cs=%s) did not return the first match / None" % (label, cs))
            if ns.has_taxon_label(label, **kw) != bool(m):
                bad("has_taxon_label", "has_taxon_label(%r, cs=%s) wrong" % (label, cs))
            labs = st["labels"]
            exp_all = all(self._match(model, l, cs) for l in labs)
            if ns.has_taxa_labels(labs, **kw) != exp_all:
                bad("has_taxa_labels", "has_taxa_labels(%s, cs=%s) wrong" % (labs, cs))
            for first in (False, True):
                r = ns.get_taxa(labs, first_match_only=first, **kw)
                exp = []
                for l in labs:
                    mm = self._match(model, l, cs)
                    if first:
                        exp.extend(mm[:1])
                    else:
                        for u in mm:
                            if u not in exp:
                                exp.append(u)
                if [self.uid_of.get(id(t)) for t in r] != exp:
                    bad("get_taxa", "get_taxa(%s, cs=%s, first_match_only=%s) = %s, expected %s" % (
                        labs, cs, first, [t.label for t in r], [self.labels[u] for u in exp]))
            if not first:
                pass
            wantm = 0
            for l in labs:
                for u in self._match(model, l, cs):
                    wantm |= 1 << model.bit[u]
            if ns.taxa_bitmask(labels=labs, **kw) != wantm:
                bad("taxa_bitmask(labels)", "taxa_bitmask(labels=%s, cs=%s) wrong" % (labs, cs))
            d = ns.label_taxon_map(**kw)
            rule = model.cs if cs is None else cs
            for u in members:
                lab = self.labels[u]
                if lab not in d:
                    bad("label_taxon_map", "label %r missing from label_taxon_map(cs=%s)" % (lab, cs))
                t = d[lab]
                tu = self.uid_of.get(id(t))
                if tu not in model.bit or not (self.labels[tu] == lab if rule else self.labels[tu].lower() == lab.lower()):
                    bad("label_taxon_map", "label_taxon_map(cs=%s)[%r] is not a member with a matching label" % (cs, lab))
        # iteration order
        if [self.uid_of.get(id(t)) for t in ns] != members:
            bad("iteration", "iteration order differs from membership order")
        rec.probe("query_batch")


def _parse_groups(s):
    s = s.strip()
    if not s.endswith(";"):
        return None
    s = s[:-1].strip()
    if not (s.startswith("(") and s.endswith(")")):
        return None
    inner = s[1:-1].strip()
    if inner.startswith("("):
        # ((..), (..))
        m = re.fullmatch(r"\(([^()]*)\)\s*,\s*\(([^()]*)\)", inner)
        if not m:
            return None
        return [_tok.findall(m.group(1)), _tok.findall(m.group(2))]
    if "(" in inner or ")" in inner:
        return None
    return [_tok.findall(inner)]


def make(name):
    return C10(name)
