"""C12 — copies are equal to their source and independent of it at the
documented depth.

Simulated: the history of mutations applied alternately to source and copy
after the copy was taken.  Oracles: (a) equal canonical dumps at copy time,
(b) reachable mutable objects intersect only in the region the route is
documented to share, (c) no mutation of one side changes the other side's dump,
(d) attribute-bound annotations on the copy follow the copy.
"""
import copy as _copy

import dendropy

from ..engine import Machine, StopRun
from ..model import gen, rawtree, canon
from ..seams.simaddr import SimAddresses

# route -> (kinds, depth class)
ROUTES = {
    "deepcopy": ("tree", "treelist", "matrix", "namespace"),
    "clone2": ("tree", "treelist", "matrix", "namespace"),
    "clone1": ("tree", "treelist", "matrix"),
    "constructor": ("tree", "treelist", "matrix"),
    "constructor_other_ns": ("tree", "treelist"),
    "copy": ("tree", "treelist", "matrix", "namespace"),
    "clone0": ("treelist", "matrix", "namespace"),
    "scoped_copy": ("tree", "treelist"),
    "extract_tree": ("tree",),
}
DEPTH = {
    ("deepcopy", "*"): "deep", ("clone2", "*"): "deep",
    ("clone1", "*"): "ns", ("constructor", "*"): "ns", ("scoped_copy", "*"): "ns", ("copy", "tree"): "ns",
    ("constructor_other_ns", "*"): "other_ns",
    ("copy", "treelist"): "shallow", ("copy", "matrix"): "shallow", ("clone0", "treelist"): "shallow", ("clone0", "matrix"): "shallow",
    ("copy", "namespace"): "ns_members", ("clone0", "namespace"): "ns_members",
    ("extract_tree", "tree"): "extract",
}
DEPTH_DOC = {
    "deep": "deep copy: nothing mutable shared",
    "ns": "taxon-namespace-scoped copy: exactly the namespace and its taxa shared",
    "other_ns": "copy constructor with another taxon_namespace: nothing shared with the source, taxa mapped by label",
    "shallow": "documented shallow copy: only the container (and its annotation set) is new, members shared",
    "ns_members": "TaxonNamespace copy: new namespace, same Taxon objects, same bits",
    "extract": "extracted tree: structure, edge lengths, labels and taxa only; taxa shared, nodes new",
}

MUTS = {
    "tree": ["annot_value_edit", "node_annot_value_edit", "edge_via_map", "edge_length", "node_label", "tree_label", "annot_add", "annot_drop", "annot_change", "node_annot_add", "comment",
             "encode", "attr", "reroot", "prune", "collapse", "add_child", "rotate", "relabel_taxon", "ns_add", "edge_annot_add", "is_rooted",
             "replace_taxon", "recopy", "recopy", "copy_of_copy"],
    "treelist": ["annot_value_edit", "edge_length", "node_label", "list_label", "append", "remove", "annot_add", "reroot", "prune", "relabel_taxon", "ns_add",
                 "tree_annot_add", "comment", "replace_taxon", "recopy", "copy_of_copy"],
    "matrix": ["annot_value_edit", "column_label", "cell_annot", "set_cell", "append_cell", "del_sequence", "new_sequence", "mat_label", "annot_add", "relabel_taxon", "ns_add", "seq_annot", "subset_edit", "subset_edit", "copy_of_copy"],
    "namespace": ["annot_value_edit", "add_taxon", "remove_taxon", "relabel_taxon", "sort", "ns_label", "annot_add", "taxon_annot"],
}
SHARED_TOUCHING = set(["relabel_taxon", "ns_add", "taxon_annot", "add_taxon", "remove_taxon", "sort", "ns_label", "replace_taxon"])


def depth_of(route, kind):
    return DEPTH.get((route, kind)) or DEPTH.get((route, "*"))


class C12(Machine):
    name = "c12"
    property_id = "C12"
    runs = {"quick": 30000, "thorough": 800000}
    batch = 200
    rule = ("seeded object (tree / tree list / matrix / namespace, with annotations, comments, bound attributes, encoded bipartitions, "
            "extra attributes), seeded copy route, then 3-25 mutations applied to source or copy; distinct = (kind, route, sequence of "
            "(side, mutation))")
    components = {"real": ["Annotable.__deepcopy__/__copy__", "AnnotationSet.__deepcopy__", "Tree/TreeList/CharacterMatrix/TaxonNamespace "
                           "copy routes (copy.deepcopy, clone(0|1|2), copy constructors, copy.copy, taxon_namespace_scoped_copy, extract_tree)",
                           "mutators used after the copy"],
                  "simulated": ["history of mutations on either side", "object addresses (SimAddr)"]}
    assumptions = ["documented depth per route: " + "; ".join("%s" % v for v in DEPTH_DOC.values()),
                   "lazily filled caches are not content and are skipped by name: " + ", ".join(sorted(canon.SKIP)),
                   "state alphabets and state identities are treated as immutable values (shared by design)"]

    def evidence_extra(self):
        return {"depth_table": dict(("%s/%s" % k, DEPTH_DOC[v]) for k, v in DEPTH.items()), "skipped_cache_fields": sorted(canon.SKIP)}

    def __init__(self, name="c12"):
        self.name = name

    def gen(self, rng, tier):
        kind = rng.choice(["tree", "tree", "treelist", "matrix", "namespace"])
        route = rng.choice([r for r, ks in ROUTES.items() if kind in ks])
        n = rng.randint(2, 7)
        labs = gen.labels(rng, n, "plain")
        cfg = {"kind": kind, "route": route, "labels": labs, "addr_seed": rng.getrandbits(32),
               "rooted": rng.choice([True, False, None]), "encoded": rng.random() < 0.4, "annotated": rng.random() < 0.7,
               "bound": rng.random() < 0.6, "extra_attr": rng.random() < 0.4, "dt": rng.choice(["dna", "standard"])}
        init = {"trees": [gen.tree_spec(rng, labs, rng.choice(["binary", "poly", "caterpillar", "unifurc"]), rng.choice(["int", "float", "none"]),
                                        internal_labels=rng.random() < 0.4) for _ in range(rng.randint(1, 3))],
                "rows": gen.sequences(rng, labs, rng.randint(1, 6), "ACGT-?N" if cfg["dt"] == "dna" else "01?-")}
        if kind == "tree" and rng.random() < 0.01:
            # "all shapes": a comb of 300 tips is about 300 levels deep
            cfg["deep"] = True
            cfg["annotated"] = cfg["bound"] = cfg["extra_attr"] = cfg["encoded"] = False
            cfg["labels"] = labs = gen.labels(rng, 300, "plain")
            init["trees"] = [gen.tree_spec(rng, labs, "caterpillar", "int")]
        steps = []
        for _ in range(rng.randint(3, 60 if tier == "thorough" else 25)):
            steps.append({"side": rng.choice(["src", "copy"]), "m": rng.choice(MUTS[kind]), "k": rng.randrange(10 ** 6), "k2": rng.randrange(10 ** 6),
                          "v": rng.choice([0.5, 2, 7.25, None]), "s": rng.choice(["foo", "bar", "q", ""])})
        return {"config": cfg, "initial": init, "steps": steps}

    # ------------------------------------------------------------------
    def run(self, plan, rec):
        with SimAddresses(plan["config"]["addr_seed"]):
            self._run(plan, rec)

    def _build(self, cfg, init):
        ns = dendropy.TaxonNamespace(cfg["labels"], label="ns")
        kind = cfg["kind"]

        def mk_tree(spec, i):
            t = gen.build_tree(dendropy, spec, ns, is_rooted=cfg["rooted"], label="tree%d" % i)
            if cfg["annotated"]:
                t.annotations.add_new("source", "sim")
                t.annotations.add_new("hpd", [0.25, 0.75])          # mutable annotation value
                nodes = rawtree.raw_nodes(t)
                nodes[-1].annotations.add_new("support", 0.5)
                nodes[-1].annotations.add_new("range", [1, 2, 3])
                nodes[0].edge.annotations.add_new("rate", 1.5)
                nodes[-1].edge.annotations.add_new("rates", {"a": [1.0]})
                t.comments.append("a comment")
                nodes[-1].comments.append("node comment")
            if cfg["bound"]:
                t.annotations.add_bound_attribute("label")
                nd = rawtree.raw_nodes(t)[-1]
                nd.annotations.add_bound_attribute("label")
                # an annotation of the tree bound to an attribute of ANOTHER object of the same tree (its seed edge)
                t.annotations.add_bound_attribute("length", annotation_name="root_length", owner_instance=t.seed_node.edge)
            if cfg["encoded"]:
                t.encode_bipartitions()
                if cfg["extra_attr"]:
                    t.bipartition_edge_map          # populate the lazily built lookup tables before the copy is taken
                    t.split_bitmask_edge_map
            if cfg["extra_attr"]:
                t.extra = {"k": [1, 2, 3]}
                rawtree.raw_nodes(t)[-1].mark = ["m"]
                rawtree.raw_nodes(t)[0].hpd = ([0.25, 0.75], {"n": [3]})      # immutable outside, mutable inside
                rawtree.raw_nodes(t)[0].edge.span = ({"lo": [0]},)
            return t
        if kind == "tree":
            return mk_tree(init["trees"][0], 0), ns
        if kind == "treelist":
            tl = dendropy.TreeList(taxon_namespace=ns, label="list")
            for i, sp in enumerate(init["trees"]):
                tl.append(mk_tree(sp, i))
            if cfg["annotated"]:
                tl.annotations.add_new("collection", "x")
                tl.annotations.add_new("tags", ["p", "q"])
            return tl, ns
        if kind == "matrix":
            cls = dendropy.DnaCharacterMatrix if cfg["dt"] == "dna" else dendropy.StandardCharacterMatrix
            m = cls.from_dict(init["rows"], taxon_namespace=ns)
            m.label = "mat"
            m.new_character_subset("first", [0])
            m.new_character_subset("codon3", set([2, 5]))
            if cfg["extra_attr"] or cfg["annotated"]:
                # column definitions shared by the cells of a column, and a cell-level annotation
                from dendropy.datamodel.charmatrixmodel import CharacterType
                ncol = max([len(m[t]) for t in m] or [0])
                for c in range(ncol):
                    m.character_types.append(CharacterType(label="col%d" % c, state_alphabet=m.default_state_alphabet))
                for t in m:
                    seq = m[t]
                    for c in range(len(seq)):
                        seq.set_character_type_at(c, m.character_types[c])
                    if len(seq):
                        seq.annotations_at(0).add_new("cellnote", [1])
            if cfg["annotated"]:
                m.annotations.add_new("gene", "cox1")
                m.annotations.add_new("partitions", [[0, 1], [2]])
            if cfg["bound"]:
                m.annotations.add_bound_attribute("label")
            return m, ns
        if cfg["annotated"]:
            ns.annotations.add_new("origin", "sim")
            ns.annotations.add_new("codes", ["x"])
            ns[0].annotations.add_new("rank", "species")
        return ns, ns

    def _copy(self, cfg, src, ns):
        route, kind = cfg["route"], cfg["kind"]
        if route == "deepcopy":
            return _copy.deepcopy(src), None
        if route == "clone2":
            return src.clone(2), None
        if route == "clone1":
            return src.clone(1), None
        if route == "clone0":
            return src.clone(0), None
        if route == "copy":
            return _copy.copy(src), None
        if route == "scoped_copy":
            return src.taxon_namespace_scoped_copy(), None
        if route == "constructor":
            return type(src)(src), None
        if route == "constructor_other_ns":
            ns2 = dendropy.TaxonNamespace(label="ns2")
            return type(src)(src, taxon_namespace=ns2), ns2
        if route == "extract_tree":
            # the documented factories are part of the route (default / the class itself / a subclass with an explicit node factory)
            v = cfg["addr_seed"] % 3
            kw = {} if v == 0 else ({"tree_factory": dendropy.Tree} if v == 1 else {"tree_factory": _SubTree, "node_factory": dendropy.Node})
            return src.extract_tree(extraction_source_reference_attr_name=None, **kw), None
        raise ValueError(route)

    def _run(self, plan, rec):
        cfg = plan["config"]
        kind, route = cfg["kind"], cfg["route"]
        depth = depth_of(route, kind)
        src, ns = self._build(cfg, plan["initial"])
        try:
            cp, ns2 = self._copy(cfg, src, ns)
        except Exception as e:
            import traceback
            fn = [f.name for f in traceback.extract_tb(e.__traceback__) if "dendropy" in f.filename]
            rec.violation("COPY_FAILED", {"kind": kind, "route": route, "exception": type(e).__name__, "function": fn[-1] if fn else "harness"},
                          "%s of a %s raised %s: %s" % (route, kind, type(e).__name__, e))
            return
        base = {"kind": kind, "route": route}
        if cp is None or cp is src:
            rec.violation("NOT_A_COPY", base, "%s returned %s" % (route, "None" if cp is None else "the source itself"))
            return
        if cfg.get("deep"):
            # (the comparison machinery of this harness recurses too: for the deep comb only the copy itself is demanded)
            if len(rawtree.raw_nodes(cp)) != len(rawtree.raw_nodes(src)) and depth != "extract":
                rec.violation("NOT_EQUAL_AT_COPY", dict(base, where="deep"), "copy of a deep tree has another number of nodes")
            rec.probe("deep_tree_copied")
            return
        # (a) equality at copy time
        d_src, ids_src = self._dump(src, depth, ns, None)
        d_cp, ids_cp = self._dump(cp, depth, ns, ns2)
        if depth == "extract":
            if _nested(src) != _nested(cp):
                rec.violation("NOT_EQUAL_AT_COPY", base, "extracted tree differs in structure/lengths/labels/taxa: %s vs %s" % (_nested(src), _nested(cp)))
                return
            if cp.is_rooted != src.is_rooted or cp.label != src.label:
                rec.violation("NOT_EQUAL_AT_COPY", dict(base, where="rooting_or_label"),
                              "extracted tree has rooting %r and label %r, its source %r and %r" % (cp.is_rooted, cp.label, src.is_rooted, src.label))
                return
        elif depth != "shallow":
            # (documented shallow copies: only membership is compared, in _disjoint)
            if d_src != d_cp:
                rec.violation("NOT_EQUAL_AT_COPY", dict(base, where=_where(canon.first_difference(d_src, d_cp))),
                              "copy differs from its source at copy time: %s" % canon.first_difference(d_src, d_cp))
                return
        # (b) disjointness
        bad = self._disjoint(src, cp, ns, depth, ids_src, ids_cp)
        if bad:
            rec.violation("SHARED_MUTABLE_STATE", dict(base, what=bad[0]), "%s: %s" % (DEPTH_DOC[depth], bad[1]))
            return
        if kind == "matrix" and depth != "shallow" and hasattr(src, "state_alphabets"):
            # the cells of the copy are states of the source's alphabets (state alphabets are documented singletons: never copied)
            if [id(a) for a in cp.state_alphabets] != [id(a) for a in src.state_alphabets] or \
                    (cp.default_state_alphabet is not src.default_state_alphabet):
                rec.violation("NOT_EQUAL_AT_COPY", dict(base, where="state_alphabets"),
                              "the copy declares other state alphabets than its source (its cells still belong to the source's)")
                return
        rec.ev("copied", kind, route, depth)
        # (d) bound attributes on the copy follow the copy
        if cfg["bound"] and kind in ("tree", "matrix") and depth in ("deep", "ns", "other_ns"):
            old = src.label
            cp.label = "copy-label"
            a = cp.annotations.find(name="label")
            sa = src.annotations.find(name="label")
            if a is None or a.value != "copy-label" or sa is None or sa.value != old:
                rec.violation("BOUND_ATTRIBUTE", base, "attribute-bound annotation on the copy reports %r (copy.label=%r), on the source %r (source.label=%r)" % (
                    a.value if a is not None else None, cp.label, sa.value if sa is not None else None, src.label))
                return
            rec.probe("bound_attribute_checked")
        if depth == "shallow":
            return      # members are shared by documentation: nothing more to demand
        # (c) non-interference
        names = []
        for i, st in enumerate(plan["steps"]):
            rec.step_index = i
            rec.steps += 1
            m = st["m"]
            if m == "copy_of_copy":
                # the copy is an object like any other: copying it (same route, or a deep copy) works and gives an equal object
                if depth not in ("deep", "ns", "other_ns"):
                    continue
                cns = ns2 if ns2 is not None else ns
                try:
                    if st.get("k", 0) % 2:
                        cc, cns2 = _copy.deepcopy(cp), None
                    else:
                        cc, cns2 = self._copy(cfg, cp, cns)
                except Exception as e:
                    import traceback
                    fn = [f.name for f in traceback.extract_tb(e.__traceback__) if "dendropy" in f.filename]
                    rec.violation("COPY_FAILED", dict(base, exception=type(e).__name__, function=fn[-1] if fn else "harness", where="copy_of_copy"),
                                  "copying the copy (made by %s) of a %s raised %s: %s" % (route, kind, type(e).__name__, e))
                    return
                if cc is None or cc is cp:
                    rec.violation("NOT_A_COPY", dict(base, where="copy_of_copy"), "copy of the copy is %s" % ("None" if cc is None else "the copy itself"))
                    return
                if cfg["bound"] and kind in ("tree", "matrix"):
                    keep = cp.label
                    cc.label = "copy-of-copy"
                    a = cc.annotations.find(name="label")
                    sa = cp.annotations.find(name="label")
                    if a is None or a.value != "copy-of-copy" or sa is None or sa.value != keep:
                        rec.violation("BOUND_ATTRIBUTE", dict(base, where="copy_of_copy"),
                                      "attribute-bound annotation on the copy of the copy reports %r, on the copy %r (label %r)" % (
                                          a.value if a is not None else None, sa.value if sa is not None else None, keep))
                        return
                rec.probe("copy_of_copy")
                names.append(("cp", "copy_of_copy"))
                continue
            if m == "recopy" and depth == "extract":
                continue        # (a mutated source may refer to taxa outside the namespace, which an extraction shares by design)
            if m == "recopy":
                # a further copy of the (by now mutated) source through the same route: same obligations
                try:
                    cp, ns2 = self._copy(cfg, src, ns)
                except Exception as e:
                    import traceback
                    fn = [f.name for f in traceback.extract_tb(e.__traceback__) if "dendropy" in f.filename]
                    rec.violation("COPY_FAILED", dict(base, exception=type(e).__name__, function=fn[-1] if fn else "harness"),
                                  "second %s of a %s (after %s) raised %s: %s" % (route, kind, names, type(e).__name__, e))
                    return
                d_src, ids_src = self._dump(src, depth, ns, None)
                d_cp, ids_cp = self._dump(cp, depth, ns, ns2)
                if depth == "extract":
                    if _nested(src) != _nested(cp):
                        rec.violation("NOT_EQUAL_AT_COPY", dict(base, where="second_copy"), "second extracted tree differs from its source")
                        return
                elif d_src != d_cp:
                    rec.violation("NOT_EQUAL_AT_COPY", dict(base, where="second_copy:" + _where(canon.first_difference(d_src, d_cp))),
                                  "a copy taken after %s differs from its source: %s" % (names[-4:], canon.first_difference(d_src, d_cp)))
                    return
                bad = self._disjoint(src, cp, ns, depth, ids_src, ids_cp)
                if bad:
                    rec.violation("SHARED_MUTABLE_STATE", dict(base, what="second_copy:" + bad[0]), "copy taken after %s: %s: %s" % (names[-4:], DEPTH_DOC[depth], bad[1]))
                    return
                rec.probe("recopied")
                names.append(("src", "recopy"))
                continue
            shared_touch = m in SHARED_TOUCHING and depth in ("ns", "ns_members", "extract")
            side = st["side"]
            target, other = (src, cp) if side == "src" else (cp, src)
            tns = target if kind == "namespace" else target.taxon_namespace
            ons = ns2 if (side == "src" and ns2 is not None) else ns
            before, _ = self._dump(other, depth, ons if other is cp and ns2 is not None else ns, ns2 if other is cp else None)
            try:
                done = self._mutate(target, kind, st, tns)
            except Exception as e:
                rec.probe("mutation_raised_history_abandoned")     # the mutators are other properties' subject
                return
            if not done:
                continue
            if shared_touch:
                names.append((side, m))     # touches the region the route is documented to share: nothing to compare
                continue
            after, _ = self._dump(other, depth, ons if other is cp and ns2 is not None else ns, ns2 if other is cp else None)
            rec.ev("mut", side, m)
            names.append((side, m))
            if before != after:
                rec.violation("INTERFERENCE", dict(base, mutation=m, side=side),
                              "%s on the %s is visible through the %s (%s): %s" % (
                                  m, "source" if side == "src" else "copy", "copy" if side == "src" else "source", DEPTH_DOC[depth],
                                  canon.first_difference(before, after)))
                return
        rec.nontrivial((kind, route, names))

    # ------------------------------------------------------------------
    def _dump(self, obj, depth, ns, ns2):
        if depth == "other_ns":
            # taxa are mapped by label into another namespace: compare by label, namespaces opaque
            opaque = set()
            for n_ in (ns, ns2):
                if n_ is not None:
                    opaque.add(id(n_.__dict__))
            return canon.dump(obj, opaque_ids=opaque, taxa_by_label=True)
        return canon.dump(obj)

    def _disjoint(self, src, cp, ns, depth, ids_src, ids_cp):
        if depth in ("deep", "ns", "extract"):
            # reachability includes what the lazily filled lookup tables hand out
            ids_src = canon.reachable_ids(src)
            ids_cp = canon.reachable_ids(cp)
        common = ids_src & ids_cp
        if depth == "deep":
            if common:
                return ("deep_copy_shares", "%d mutable objects are reachable from both (e.g. %s)" % (len(common), self._name_of(src, common)))
            return None
        if depth == "other_ns":
            _, a = canon.dump(src)
            _, b = canon.dump(cp)
            c = a & b
            if c:
                return ("other_namespace_copy_shares", "%d mutable objects are reachable from both (e.g. %s)" % (len(c), self._name_of(src, c)))
            return None
        if depth in ("ns", "extract"):
            allowed = canon.reachable_ids(ns)
            extra = common - allowed
            if extra:
                return ("shares_beyond_namespace", "%d mutable objects outside the namespace are reachable from both (e.g. %s)" % (
                    len(extra), self._name_of(src, extra)))
            if cp.taxon_namespace is not ns:
                return ("namespace_not_shared", "the copy does not refer to the source's namespace")
            return None
        if depth == "ns_members":
            if cp is src or cp._taxa is src._taxa:
                return ("same_container", "the namespace copy shares the member list")
            if [id(t) for t in cp] != [id(t) for t in src]:
                return ("members", "the namespace copy does not hold the same Taxon objects")
            for t in src:
                if cp.taxon_bitmask(t) != src.taxon_bitmask(t):
                    return ("bits", "taxon %r has another bit in the copy" % t.label)
            return None
        if depth == "shallow":
            if cp is src:
                return ("same_container", "copy is the source")
            if hasattr(src, "_trees"):
                if cp._trees is src._trees:
                    return ("same_container", "the shallow copy shares the list of trees itself")
                if [id(t) for t in cp._trees] != [id(t) for t in src._trees]:
                    return ("members", "the shallow copy does not hold the same trees")
            if hasattr(src, "_taxon_sequence_map"):
                if cp._taxon_sequence_map is src._taxon_sequence_map:
                    return ("same_container", "the shallow copy shares the sequence map itself")
            return None
        return None

    @staticmethod
    def _name_of(root, idset):
        # best effort: class names of shared objects
        found = []
        seen = set()
        stack = [root]
        while stack and len(found) < 3:
            o = stack.pop()
            d = getattr(o, "__dict__", None)
            k = id(d) if isinstance(d, dict) else id(o)
            if k in seen:
                continue
            seen.add(k)
            if k in idset:
                found.append(type(o).__name__)
            if isinstance(o, dict):
                stack.extend(o.keys())
                stack.extend(o.values())
            elif isinstance(o, (list, tuple, set, frozenset)):
                stack.extend(o)
            elif isinstance(d, dict):
                stack.extend(d.values())
        return ", ".join(found) or "?"

    # ------------------------------------------------------------------
    def _mutate(self, obj, kind, st, ns):
        m, k, k2 = st["m"], st["k"], st["k2"]
        if m in ("annot_value_edit", "node_annot_value_edit"):
            holder = obj
            if m == "node_annot_value_edit":
                holder = rawtree.raw_nodes(obj)[-1]
            if getattr(holder, "_annotations", None) is None:
                return False
            for a in holder.annotations:
                v = a.value
                if isinstance(v, list) and not a.is_attribute:
                    v.append(st["k"] % 5)
                    return True
            return False
        if kind == "treelist" and m in ("edge_length", "node_label", "reroot", "prune", "tree_annot_add", "replace_taxon"):
            if len(obj) == 0:
                return False
            tree = obj[k2 % len(obj)]
            if m == "tree_annot_add":
                tree.annotations.add_new("added", st["s"])
                return True
            return self._mutate(tree, "tree", st, ns)
        if kind in ("tree",):
            tree = obj
            nodes = rawtree.raw_nodes(tree)
            if m == "edge_via_map":
                if tree.bipartition_encoding is None:
                    return False
                mp = tree.split_bitmask_edge_map if k % 2 else tree.bipartition_edge_map
                edges = list(mp.values())
                if not edges:
                    return False
                edges[k2 % len(edges)].length = st["v"] if st["v"] is not None else 9.5
            elif m == "edge_length":
                nodes[k % len(nodes)].edge.length = st["v"]
            elif m == "node_label":
                nodes[k % len(nodes)].label = st["s"]
            elif m == "tree_label":
                tree.label = st["s"]
            elif m == "annot_add":
                tree.annotations.add_new("added", st["s"])
            elif m == "annot_drop":
                tree.annotations.drop(name="source")
            elif m == "annot_change":
                a = tree.annotations.find(name="source")
                if a is None:
                    return False
                a.value = st["s"]
            elif m == "node_annot_add":
                nodes[k % len(nodes)].annotations.add_new("n", st["v"])
            elif m == "edge_annot_add":
                nodes[k % len(nodes)].edge.annotations.add_new("e", st["v"])
            elif m == "comment":
                tree.comments.append(st["s"])
            elif m == "encode":
                tree.encode_bipartitions()
            elif m == "attr":
                if hasattr(tree, "extra"):
                    tree.extra["k"].append(st["k"] % 7)
                else:
                    tree.fresh_attr = [st["s"]]
            elif m == "is_rooted":
                tree.is_rooted = not tree.is_rooted
            elif m == "reroot":
                internals = [nd for nd in nodes if nd._child_nodes]
                tree.reseed_at(internals[k % len(internals)], update_bipartitions=False)
            elif m == "prune":
                leaves = [nd for nd in nodes if not nd._child_nodes and nd.taxon is not None]
                if len(leaves) < 3:
                    return False
                tree.prune_taxa([leaves[k % len(leaves)].taxon])
            elif m == "collapse":
                inner = [nd for nd in nodes if nd._child_nodes and nd._parent_node is not None]
                if not inner:
                    return False
                inner[k % len(inner)].edge.collapse()
            elif m == "add_child":
                nodes[k % len(nodes)].new_child(edge_length=st["v"])
            elif m == "rotate":
                internals = [nd for nd in nodes if len(nd._child_nodes) > 1]
                if not internals:
                    return False
                nd = internals[k % len(internals)]
                ch = list(nd._child_nodes)
                ch.reverse()
                nd.set_child_nodes(ch)
            elif m == "relabel_taxon":
                if len(ns) == 0:
                    return False
                ns[k % len(ns)].label = "relabelled%d" % (k % 5)
            elif m == "ns_add":
                ns.new_taxon(label="new%d" % (k % 9))
            elif m == "replace_taxon":
                leaves = [nd for nd in nodes if not nd._child_nodes and nd.taxon is not None]
                if not leaves:
                    return False
                nd = leaves[k % len(leaves)]
                old = nd.taxon
                nd.taxon = ns.new_taxon(label="repl%d" % (k % 97))
                if not any(x.taxon is old for x in nodes):
                    try:
                        ns.remove_taxon(old)
                    except ValueError:
                        pass
            else:
                return False
            return True
        if kind == "treelist":
            tl = obj
            if m == "list_label":
                tl.label = st["s"]
            elif m == "append":
                tl.new_tree()
            elif m == "remove":
                if len(tl) == 0:
                    return False
                del tl[k % len(tl)]
            elif m == "annot_add":
                tl.annotations.add_new("added", st["s"])
            elif m == "comment":
                tl.comments.append(st["s"])
            elif m == "relabel_taxon":
                if len(ns) == 0:
                    return False
                ns[k % len(ns)].label = "relabelled%d" % (k % 5)
            elif m == "ns_add":
                ns.new_taxon(label="new%d" % (k % 9))
            else:
                return False
            return True
        if kind == "matrix":
            mtx = obj
            taxa = [t for t in mtx]
            if m in ("set_cell", "append_cell", "del_sequence", "seq_annot") and not taxa:
                return False
            if m == "set_cell":
                seq = mtx[taxa[k % len(taxa)]]
                if len(seq) == 0:
                    return False
                alpha = mtx.default_state_alphabet
                seq[k2 % len(seq)] = alpha[["A", "C"][k % 2]] if "A" in alpha.symbols else alpha[["0", "1"][k % 2]]
            elif m == "append_cell":
                alpha = mtx.default_state_alphabet
                mtx[taxa[k % len(taxa)]].append(alpha["A"] if "A" in alpha.symbols else alpha["0"])
            elif m == "del_sequence":
                del mtx[taxa[k % len(taxa)]]
            elif m == "new_sequence":
                cands = [t for t in mtx.taxon_namespace if t not in mtx]
                if not cands:
                    return False
                mtx.new_sequence(cands[k % len(cands)])
            elif m == "column_label":
                if not mtx.character_types:
                    return False
                mtx.character_types[k % len(mtx.character_types)].label = "relabelled-%s" % st["s"]
            elif m == "cell_annot":
                if not taxa:
                    return False
                seq = mtx[taxa[k % len(taxa)]]
                if len(seq) == 0:
                    return False
                seq.annotations_at(k2 % len(seq)).add_new("c", st["v"])
            elif m == "mat_label":
                mtx.label = st["s"]
            elif m == "annot_add":
                mtx.annotations.add_new("added", st["s"])
            elif m == "seq_annot":
                mtx[taxa[k % len(taxa)]].annotations.add_new("q", st["v"])
            elif m == "subset_edit":
                # the column set of a character subset, edited in place
                subs = list(mtx.character_subsets.values())
                if not subs:
                    return False
                ci = subs[k % len(subs)].character_indices
                if (k2 % 7) in ci:
                    ci.discard(k2 % 7)
                else:
                    ci.add(k2 % 7)
            elif m == "relabel_taxon":
                if len(ns) == 0:
                    return False
                ns[k % len(ns)].label = "relabelled%d" % (k % 5)
            elif m == "ns_add":
                ns.new_taxon(label="new%d" % (k % 9))
            else:
                return False
            return True
        if kind == "namespace":
            n_ = obj
            if m == "add_taxon":
                n_.new_taxon(label="new%d" % (k % 9))
            elif m == "remove_taxon":
                if len(n_) == 0:
                    return False
                n_.remove_taxon(n_[k % len(n_)])
            elif m == "relabel_taxon":
                if len(n_) == 0:
                    return False
                n_[k % len(n_)].label = "relabelled%d" % (k % 5)
            elif m == "sort":
                n_.sort(reverse=bool(k % 2))
            elif m == "ns_label":
                n_.label = st["s"]
            elif m == "annot_add":
                n_.annotations.add_new("added", st["s"])
            elif m == "taxon_annot":
                if len(n_) == 0:
                    return False
                n_[k % len(n_)].annotations.add_new("t", st["s"])
            else:
                return False
            return True
        return False


class _SubTree(dendropy.Tree):
    pass


def _nested(tree):
    def rec_(nd):
        return [nd.taxon.label if nd.taxon is not None else None, id(nd.taxon) if nd.taxon is not None else None, nd._label, nd._edge.length,
                [rec_(c) for c in nd._child_nodes]]
    return rec_(tree._seed_node)


def _where(s):
    if not s:
        return "?"
    head = s.split(":")[0]
    import re
    return re.sub(r"\d+", "#", head)[-60:]


def make(name):
    return C12(name)
